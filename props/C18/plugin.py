"""C18 — coroutine primitives: FIFO delivery, mutual exclusion, no lost wake-ups (tbox::coroutine)."""
import itertools
import vlib
ID = 'C18'
LEAN_MODULES = ['TboxModel.C18.Props', 'TboxModel.C18.SemWidth', 'TboxModel.C18.Progress', 'TboxModel.C18.Props5', 'TboxModel.C18.Compact',
                'TboxModel.C18.ProgressBC', 'TboxModel.C18.ProgressCD', 'TboxModel.C18.ProgressWP', 'TboxModel.C18.NoCorrupt']
EXE = 'c18'
THEOREMS = ['Tbox.C18.C18_reachable_inv', 'Tbox.C18.C18_channel_fifo_once', 'Tbox.C18.C18_mutex_exclusive',
            'Tbox.C18.C18_semaphore_bound', 'Tbox.C18.C18_no_lost_wakeup', 'Tbox.C18.C18_no_lost_wakeup_quiescent',
            'Tbox.C18.C18_cancel_unblocks', 'Tbox.C18.C18_cancel_fails', 'Tbox.C18.C18_reachable_cab', 'Tbox.C18.C18_cleanup_terminates',
            'Tbox.C18.C18_cleanup_all_dead', 'Tbox.C18.C18_cancelled_switch_terminates', 'Tbox.C18.C18_join_finished_returns_failure', 'Tbox.C18.C18_condition_post_consumes', 'Tbox.C18.C18_cleanup_fails_pending',
            'Tbox.C18.C18_lost_wakeup_condition_counterexample', 'Tbox.C18.C18_join', 'Tbox.C18.C18_join_single',
            'Tbox.C18.C18_lost_wakeup_channel_counterexample', 'Tbox.C18.C18_lost_wakeup_semaphore_counterexample',
            'Tbox.C18.C18_lost_wakeup_mutex_counterexample', 'Tbox.C18.C18_lost_wakeup_rewait_counterexample',
            # round 4: calls from the main context, aborts, width of the semaphore count
            'Tbox.C18.C18_routine_calls_never_abort', 'Tbox.C18.C18_main_call_aborts_iff', 'Tbox.C18.C18_main_call_logged',
            'Tbox.C18.C18_abort_final', 'Tbox.C18.SemW.C18_semw_bound', 'Tbox.C18.SemW.C18_semw_exact',
            'Tbox.C18.SemW.C18_semw_negative_counterexample', 'Tbox.C18.SemW.C18_semw_overflow_counterexample',
            # progress form of no-lost-wake-up: matched programs end with every routine dead
            'Tbox.C18.C18_progress', 'Tbox.C18.C18_progress_conservation',
            # round 5: progress with nested ordered locks and acyclic joins; Locker (RAII); stack size; resume inside a routine; scale
            'Tbox.C18.C18_progress_unordered_locks_counterexample', 'Tbox.C18.C18_progress_join_cycle_counterexample',
            'Tbox.C18.C18_progress_broadcast_needs_order_counterexample', 'Tbox.C18.C18_progress_condition_needs_order_counterexample',
            'Tbox.C18.C18_stack_clamped', 'Tbox.C18.C18_stack_create_safe', 'Tbox.C18.C18_stack_zero_corrupts_counterexample',
            'Tbox.C18.C18_locker_dtor_foreign_noop', 'Tbox.C18.C18_locker_holds_unless_cancelled', 'Tbox.C18.C18_locker_unwind_releases',
            'Tbox.C18.C18_locker_releases_on_return', 'Tbox.C18.C18_locker_cancel_inside_scope',
            'Tbox.C18.C18_locker_scope_not_exclusive_counterexample', 'Tbox.C18.C18_locker_same_mutex_not_recursive_counterexample',
            'Tbox.C18.C18_resume_self', 'Tbox.C18.C18_act_on_fresh_token', 'Tbox.C18.C18_compact_eq', 'Tbox.C18.C18_stepC_eq',
            # round 6: Broadcast progress under the ORDER hypothesis (exact for the class), no reachable state is corrupt
            'Tbox.C18.C18_progress_broadcast', 'Tbox.C18.C18_progress_broadcast_iff', 'Tbox.C18.C18_progress_broadcast_unordered_hangs',
            'Tbox.C18.C18_progress_broadcast_post_first_counterexample',
            'Tbox.C18.C18_progress_condition', 'Tbox.C18.C18_progress_condition_iff',
            'Tbox.C18.C18_progress_condition_missing_key_counterexample', 'Tbox.C18.C18_progress_condition_post_before_add_counterexample',
            'Tbox.C18.C18_progress_waitpost', 'Tbox.C18.C18_progress_waitpost_iff', 'Tbox.C18.C18_progress_waitpost_order_counterexample',
            'Tbox.C18.C18_never_corrupt', 'Tbox.C18.C18_step_not_corrupt', 'Tbox.C18.C18_run_not_corrupt']
SOURCES = ['modules/coroutine/scheduler.cpp'] + vlib.EVENT_SOURCES + vlib.BASE_SOURCES
FLAVOUR = 'plain'      # ASan does not follow swapcontext (false positives); see DESIGN §6 C18
LIBS = ['-ldl']
BATCH = 200
BATCH_TIMEOUT = 120
CASE_TIMEOUT = 30
SHRINK_TESTS = 80
MAX_REPORT = 4
TRUSTED = ['model lean/TboxModel/C18/Model.lean hand-written from modules/coroutine/{scheduler.cpp,channel.hpp,mutex.hpp,semaphore.hpp,'
           'broadcast.hpp,condition.hpp} AFTER patches/C18-01..08; tied by differential runs of scripted routines on the real scheduler '
           '(real ucontext switches, real epoll loop; one op line per loop iteration)',
           'ucontext switching (makecontext/swapcontext) and Cabinet token validity (ids never reissued; C08) are trusted',
           'the harness runs without sanitizers (plain flavour): raw memory safety of the coroutine stacks is not observed except by the valgrind sample',
           'abort() = failed TBOX_ASSERT of the debug build (the harness compiles without NDEBUG; a release build dereferences a null '
           'curr_routine instead) or std::terminate for an exception leaving a routine body; every case runs in a child process of its own']
ASSUMPTIONS = ['routine scripts are finite; main-context calls happen between loop passes',
               'routine stacks are large enough for the USER entry function (Routine::Routine clamps stack_size to ROUTINE_STACK_MIN_SIZE = 8 KiB since patches/C18-08, which covers the library\'s own frames; no guard page exists)',
               'RAII scripts (defr) are created with xfail = false: Locker\'s constructor has no result, so a script cannot return "when lock() fails"; early return inside scopes is the `e` op',
               'the scheduler model keeps semaphore counts as naturals (initial count k >= 0 for semaphore k; exact while releases < 2^31 - 3); the int width is modelled in SemWidth.lean',
               'Cabinet ids do not wrap around (2^64 creations)']
RULE = ('op files = script definitions (def / defr = Mutex::Locker scripts) + main-context ops (new/resume/cancel/cleanup/pass/main <primitive call>/semw/stack/stackb), each followed by one pass of the real event loop; '
        'scripts have NO retry loops, so a missed wake-up leaves a routine visibly blocked in the per-pass summary; non-trivial = at least two '
        'routines blocked at once, or a wake-up of >= 2 waiters, a re-wait, a cancel/cleanup of a blocked routine, or a spurious resume '
        '(driver tags); distinct = distinct op text')

PR = 4  # primitives per kind


def rnd_op(rng, nr, ndefs_before, heavy):
    """one script token; `heavy` = the primitive family this case concentrates on"""
    c = rng.randrange(2) if rng.random() < 0.8 else rng.randrange(PR)
    r = rng.random()
    fam = heavy if rng.random() < 0.7 else rng.choice(['ch', 'mx', 'sm', 'bc', 'cd', 'sch'])
    if fam == 'ch':
        return rng.choice(['s%d:%d' % (c, rng.randrange(1, 100)), 'r%d' % c, 's%d:%d' % (c, rng.randrange(1, 100)), 'r%d' % c, 'y'])
    if fam == 'mx':
        return rng.choice(['l%d' % c, 'u%d' % c, 'l%d' % c, 'u%d' % c, 'y'])
    if fam == 'sm':
        return rng.choice(['a%d' % c, 'v%d' % c, 'a%d' % c, 'v%d' % c, 'y'])
    if fam == 'bc':
        return rng.choice(['b%d' % c, 'p%d' % c, 'y'])
    if fam == 'cd':
        v = rng.randrange(3)
        return rng.choice(['ca%d:%d' % (c, v), 'cw%d' % c, 'cp%d:%d' % (c, v), 'cp%d:%d' % (c, v), 'y'])
    t = rng.randrange(max(nr, 1) + 1)
    opts = ['y', 'y', 'w', 'j%d' % t, 'x%d' % t, 'R%d' % t]
    if ndefs_before > 0:
        opts += ['n%d' % rng.randrange(ndefs_before), 'N%d' % rng.randrange(ndefs_before)]
    if r < 0.05:
        return 'e'
    if r < 0.07:
        return rng.choice(['t', 'K'])
    return rng.choice(opts)


def gen_case(rng):
    nr = rng.choice([1, 2, 2, 3, 3, 4, 5, 6])
    heavy = rng.choice(['ch', 'mx', 'sm', 'bc', 'cd', 'sch', 'ch', 'mx', 'sm'])
    ops = []
    for d in range(nr):
        ln = rng.choice([0, 1, 2, 2, 3, 4, 6])
        sc = ','.join(rnd_op(rng, nr, d, heavy) for _ in range(ln)) or '-'
        ops.append('def %d %s' % (rng.choice([0, 0, 1]), sc))
    created = 0
    for d in range(nr):
        ops.append('new %d %d' % (d, rng.choice([1, 1, 1, 0])))
        created += 1
    for _ in range(rng.choice([2, 4, 8, 12])):
        r = rng.random()
        if r < 0.55: ops.append('pass')
        elif r < 0.70: ops.append('resume %d' % rng.randrange(created))
        elif r < 0.85: ops.append('cancel %d' % rng.randrange(created))
        elif r < 0.90: ops.append('cleanup')
        elif r < 0.96:
            c = rng.randrange(2)
            ops.append('main ' + rng.choice(['s%d:%d' % (c, rng.randrange(1, 100)), 'v%d' % c, 'p%d' % c, 'cp%d:%d' % (c, rng.randrange(3)), 'ca%d:%d' % (c, rng.randrange(3)),
                                             's%d:%d' % (c, rng.randrange(1, 100)), 'v%d' % c, 'r%d' % c, 'a%d' % c, 'cw%d' % c, rng.choice(['y', 'w', 'l0', 'u0', 'b0', 'j0'])]))
        else:
            ops.append('new %d %d' % (rng.randrange(nr), rng.choice([0, 1]))); created += 1
    ops += ['pass', 'pass', 'cleanup']
    return ops


def gen_backtoback(rng):
    """>= 2 waiters, then back-to-back posts by one routine; or a holder that re-acquires before the woken waiter runs"""
    kind = rng.choice(['ch', 'sm', 'mx', 'mx2', 'bc', 'rewait', 'join', 'join', 'cond', 'crcl', 'crcl'])
    c = rng.randrange(PR)
    nw = rng.choice([2, 2, 3, 4])
    ops = []
    if kind == 'ch':
        ops += ['def 0 r%d' % c, 'def 0 ' + ','.join('s%d:%d' % (c, i + 1) for i in range(rng.choice([nw, nw, nw + 1, nw - 1])))]
        ops += ['new 0 1'] * nw + ['pass', 'new 1 1', 'pass', 'pass']
    elif kind == 'sm':
        ops += ['def 0 ' + ','.join(['a%d' % c] * (c + 1)), 'def 0 ' + ','.join(['v%d' % c] * nw)]
        ops += ['new 0 1'] * nw + ['pass', 'new 1 1', 'pass', 'pass']
    elif kind == 'mx':
        # holder: lock, let the waiters queue up, unlock + re-lock at once, later unlock for good
        ops += ['def 0 l%d,y,y,u%d,l%d,y,y,u%d' % (c, c, c, c), 'def 0 l%d,u%d' % (c, c)]
        ops += ['new 0 1'] + ['new 1 1'] * (nw - 1) + ['pass'] * 7
    elif kind == 'mx2':
        ops += ['def 0 l%d,y,y,u%d' % (c, c), 'def 0 l%d,y,u%d' % (c, c)]
        ops += ['new 0 1'] + ['new 1 1'] * nw + ['pass'] * 8
    elif kind == 'bc':
        ops += ['def 0 b%d,b%d' % (c, c), 'def 0 p%d,p%d' % (c, c)]
        ops += ['new 0 1'] * nw + ['pass', 'new 1 1', 'pass', 'new 1 1', 'pass', 'pass']
    elif kind == 'join':
        # a joiner blocked on a target that finishes later; a second joiner is refused; join on a finished target
        ny = rng.choice([1, 2, 3])
        ops += ['def 0 ' + ','.join(['y'] * ny), 'def %d j0,s%d:5' % (rng.randrange(2), c), 'def 0 j0,j1,r%d' % c]
        ops += ['new 0 1', 'new 1 1', 'new 2 1'] + ['pass'] * (ny + 3)
    elif kind == 'crcl':
        # create() from a routine that is being cleaned up (its blocking call fails, then it creates); 1, 2 or 4 routines
        # fill the cabinet's vector exactly, so an accepted create would reallocate under Cabinet::foreach
        blk = rng.choice(['r%d' % c, 'l%d' % c, 'a0', 'b%d' % c, 'w', 'j0'])
        ops += ['def 0 ' + rng.choice(['-', 'r%d' % c, 'y,s%d:3' % c]), 'def 0 %s,%s' % (blk, rng.choice(['n0', 'N0', 'n0,n0'])), 'def 0 l%d,%s' % (c, blk)]
        ops += ['new 2 1'] + ['new 1 1'] * rng.choice([1, 1, 3, 3, 2]) + ['pass', 'cleanup', 'pass', 'new 1 1', 'pass', 'cleanup']
        return ops
    elif kind == 'cond':
        k = rng.randrange(PR)
        ops += ['def 0 ca%d:1,ca%d:2,cw%d,s%d:9' % (k, k, k, c), 'def 0 cp%d:1,y,cp%d:2' % (k, k), 'def 0 cw%d' % k]
        ops += ['new 0 1', 'pass', 'new 2 1', 'new 1 1', 'pass', 'pass', 'pass']
    else:
        # a woken receiver finds the value gone (another routine took it) and must wait again
        ops += ['def 0 r%d' % c, 'def 0 s%d:7,r%d' % (c, c), 'def 0 s%d:8' % c]
        ops += ['new 0 1', 'pass', 'new 1 1', 'pass', 'new 2 1', 'pass', 'pass']
    # cancel / cleanup / spurious resume at a random pass
    if rng.random() < 0.5:
        k = rng.randrange(2, len(ops))
        ops.insert(k, rng.choice(['cancel %d' % rng.randrange(nw), 'resume %d' % rng.randrange(nw), 'cleanup']))
    return ops


def wake_families():
    """directed, deterministic: the three ways a wake-up goes astray once several waiters are queued —
    (A) the woken waiter is cancelled before it has run (it gives up; the others must still be served),
    (B) a waiter resumed by hand by the main context re-registers (duplicate tokens), then normal traffic,
    (C) a woken waiter that parks in an unrelated wait() before the next wake (a stale token would hit it there).
    For channel, semaphore, mutex, and (one waiter each / wake-all) condition and broadcast."""
    for kind in ('ch', 'sm', 'mx', 'bc', 'cd'):
        for nw in (2, 3):
            for tail in ('', ',w', ',y'):
                w = {'ch': 'r0', 'sm': 'a0', 'mx': 'l0,u0', 'bc': 'b0', 'cd': 'ca0:1,cw0'}[kind]
                sig = {'ch': 's0:5', 'sm': 'v0', 'mx': 'l0,w,u0', 'bc': 'p0', 'cd': 'cp0:1'}[kind]
                defs = ['def 0 ' + w + tail, 'def 0 ' + w, 'def 0 ' + sig]
                if kind == 'mx':
                    base, first, mk = 1, ['new 2 1'], ['new 0 1'] + ['new 1 1'] * (nw - 1)
                    sig1, sig2 = ['resume 0'], ['pass']          # the holder unlocks; later the waiters' own unlocks signal
                else:
                    base, first, mk = 0, [], ['new 0 1'] + ['new 1 1'] * (nw - 1)
                    sig1 = sig2 = ['new 2 1']
                W = lambda k: base + k
                for k in range(min(nw, 2)):
                    # (A) cancel the woken waiter k in the same round, before it runs; also: both waiters cancelled
                    yield defs + first + mk + sig1 + ['cancel %d' % W(k), 'pass', 'pass'] + sig2 + ['pass', 'pass']
                    yield defs + first + mk + sig1 + ['cancel %d' % W(k)] + sig2 + ['pass', 'pass', 'pass']
                    # cancelled while still waiting (stale token stays queued), then traffic
                    yield defs + first + mk + ['cancel %d' % W(k)] + sig1 + ['pass'] + sig2 + ['pass', 'pass']
                    # (B) spurious resume of waiter k (registers again), then one and two signals
                    yield defs + first + mk + ['resume %d' % W(k)] + sig1 + ['pass'] + sig2 + ['pass', 'pass']
                    yield defs + first + mk + ['resume %d' % W(k), 'resume %d' % W(k)] + sig1 + ['pass', 'pass'] + sig2 + ['pass', 'pass', 'resume %d' % W(0), 'pass']
                # (B) exactly as seeded/C18-2 trigger B: first waiter alone, resumed by hand, the others queue behind it
                yield defs + first + ['new 0 1', 'resume %d' % W(0)] + ['new 1 1'] * (nw - 1) + sig1 + ['pass'] + sig2 + ['pass', 'pass', 'resume %d' % W(0), 'pass']
                # (C) no interference: first waiter served, parks (tail), second signal must reach the next one
                yield defs + first + mk + sig1 + ['pass'] + sig2 + ['pass', 'pass', 'resume %d' % W(0), 'pass']
                # spurious resume of a woken-but-not-yet-run waiter and of the parked one
                yield defs + first + mk + sig1 + ['resume %d' % W(0), 'pass'] + sig2 + ['resume %d' % W(0), 'pass', 'pass']


def bookkeeping_families():
    """directed, deterministic: primitives with per-key / per-waiter bookkeeping.
    Condition: every order of {post x before wait, post x after wait} over 2-3 keys on a kAll (even index) and a
    kAny (odd index) object, unknown keys, duplicate posts, post after satisfaction, waiting twice on the same object
    (re-arm, by the same and by another routine), cancel / resume by hand between posts.
    Broadcast: waiters joining between two posts, the same routine waiting twice.
    Channel: send before / after the receiver blocks, several receivers, receiver cancelled with an item in flight."""
    # ---- Condition
    for k in (0, 1):                                   # 0 = kAll, 1 = kAny
        for nk in (2, 3):
            keys = list(range(1, nk + 1))
            adds = ','.join('ca%d:%d' % (k, v) for v in keys)
            for mask in range(1 << nk):                # bit i set: key i is posted BEFORE the waiter reaches wait()
                for order in (keys, keys[::-1]):
                    before = [v for i, v in enumerate(keys) if mask >> i & 1 and v in order]
                    after = [v for v in order if v not in before]
                    ops = ['def 0 %s,y,y,cw%d,s0:9' % (adds, k)] + ['def 0 cp%d:%d' % (k, v) for v in keys]
                    ops += ['new 0 1'] + ['new %d 1' % v for v in before] + ['pass', 'pass'] + ['new %d 1' % v for v in after] + ['pass', 'pass']
                    yield ops
            # unknown key, duplicate post, post after the condition was satisfied, then re-arm by the same routine
            yield ['def 0 %s,cw%d,%s,cw%d,s0:9' % (adds, k, adds, k), 'def 0 cp%d:7,cp%d:1,cp%d:1' % (k, k, k), 'def 0 ' + ','.join('cp%d:%d' % (k, v) for v in keys[1:]),
                   'new 0 1', 'new 1 1', 'pass', 'new 2 1', 'pass', 'new 2 1', 'new 1 1', 'pass', 'new 2 1', 'pass', 'pass']
            # re-arm by ANOTHER routine while the first, already posted, has not run yet (patches/C18-05), both orders of creation
            post_all = ','.join('cp%d:%d' % (k, v) for v in keys)
            yield ['def 0 %s,cw%d' % (adds, k), 'def 0 %s,ca%d:8,cw%d' % (post_all, k, k), 'def 0 cp%d:8' % k,
                   'new 0 1', 'new 1 1', 'pass', 'new 2 1', 'pass', 'pass']
            yield ['def 0 %s,cw%d' % (adds, k), 'def 0 ca%d:8,cw%d,s0:9' % (k, k), 'def 0 N1,%s' % post_all, 'def 0 cp%d:8' % k,
                   'new 0 1', 'new 2 1', 'resume 2', 'pass', 'new 3 1', 'pass', 'pass']
            # a second routine tries to wait while the first is registered (refused), cancel / resume by hand between posts
            for mid in ('cancel 0', 'resume 0', 'pass'):
                yield ['def 0 %s,cw%d,%s,cw%d' % (adds, k, adds, k), 'def 0 cp%d:1' % k, 'def 0 ' + ','.join('cp%d:%d' % (k, v) for v in keys[1:]), 'def 0 ca%d:5,cw%d' % (k, k),
                       'new 0 1', 'new 3 1', 'new 1 1', mid, 'pass', 'new 2 1', 'pass', 'new 1 1', 'new 2 1', 'pass', 'new 3 1', 'new 2 1', 'pass', 'pass']
    # ---- Broadcast: waiters joining between two posts; the same routine waiting twice; cancel between
    for nw in (1, 2, 3):
        for mid in ('pass', 'cancel 0', 'resume 0', 'new 0 1'):
            yield ['def 0 b0,b0,s0:1', 'def 0 p0'] + ['new 0 1'] * nw + ['new 1 1', mid, 'new 0 1', 'pass', 'new 1 1', 'pass', 'new 1 1', 'pass', 'pass']
            yield ['def 0 b0,y,b0', 'def 0 p0,y,p0'] + ['new 0 1'] * nw + ['new 1 1', mid, 'pass', 'pass', 'new 1 1', 'pass', 'pass']
    # ---- Channel: send before / after the receiver blocks, several receivers, receiver cancelled while an item is in flight
    for nr in (1, 2, 3):
        for ns in (1, 2, 3):
            sends = ','.join('s0:%d' % (i + 1) for i in range(ns))
            yield ['def 0 r0', 'def 0 ' + sends, 'new 1 1'] + ['new 0 1'] * nr + ['pass', 'pass']                       # send first
            yield ['def 0 r0', 'def 0 ' + sends] + ['new 0 1'] * nr + ['new 1 1', 'pass', 'pass']                       # receivers first
            for kc in range(nr):                                                                                        # item in flight, receiver cancelled
                yield ['def 0 r0,r0', 'def 0 ' + sends] + ['new 0 1'] * nr + ['new 1 1', 'cancel %d' % kc, 'pass', 'new 1 1', 'pass', 'pass']
                yield ['def 0 r0', 'def 0 ' + sends.replace(',', ',y,')] + ['new 0 1'] * nr + ['new 1 1', 'cancel %d' % kc, 'pass', 'pass', 'pass', 'new 0 1', 'pass']


def audit_families():
    """directed, deterministic (round 4): the corners of the public interface the random generator reaches rarely or never."""
    # ---- Scheduler: join on self / on a finished / on an unknown key; cancel of self; create(run_now=false); stack sizes
    yield ['def 0 y,j0,s0:1', 'new 0 1', 'pass', 'pass', 'resume 0', 'pass', 'pass', 'cancel 0', 'pass']          # join on self: stuck until resumed by hand
    yield ['def 0 j0,s0:1', 'new 0 1', 'pass', 'cancel 0', 'pass', 'pass']
    yield ['def 0 -', 'def 0 y,y,j0,j63,j1,s0:1', 'new 0 1', 'new 1 1', 'pass', 'pass', 'pass', 'pass']             # finished target, unknown key, self
    yield ['def 0 w', 'def 0 j0,s0:1', 'def 0 j0,s0:2', 'new 0 0', 'new 1 1', 'new 2 1', 'pass', 'resume 0', 'pass', 'resume 0', 'pass', 'pass']  # join on a not yet started target
    yield ['def 0 w,w', 'def 0 j0,s0:1', 'new 0 1', 'new 1 1', 'pass', 'cancel 1', 'pass', 'resume 0', 'pass', 'resume 0', 'pass', 'pass']        # joiner cancelled, target finishes later
    for blk in ('r0', 'l1', 'a0', 'b0', 'w', 'y', 'j1', 'ca0:1,cw0'):
        yield ['def 0 x0,%s,s1:1' % blk, 'def 0 l1,w', 'new 1 1', 'new 0 1', 'pass', 'pass', 'pass']                 # cancel of self, then a blocking call
        yield ['def 1 x0,%s,s1:1' % blk, 'def 0 l1,w', 'new 1 1', 'new 0 1', 'pass', 'pass', 'pass']
    yield ['def 0 x0,x0,x5,y,N0,n0', 'new 0 1', 'pass', 'pass', 'resume 1', 'pass', 'pass', 'cleanup']
    for k in (64, 128, 256, 1024):
        yield ['stack %d' % k, 'def 0 r0,s1:1,y', 'def 0 s0:1,r1', 'new 0 1', 'stack 1024', 'new 1 0', 'pass', 'resume 1', 'pass', 'pass', 'stack 4', 'stack 64 1']
    yield ['def 0 y', 'def 0 N0,N0,n0,N0', 'new 1 0', 'new 0 0', 'pass', 'resume 0', 'resume 1', 'pass', 'resume 3', 'resume 5', 'pass', 'cleanup', 'pass']
    # ---- Channel: several producers AND several consumers, interleaved by yields
    for np_, nc in ((2, 2), (3, 2), (2, 3), (1, 3), (3, 1)):
        for yl in ('', 'y,'):
            prod = ','.join('%ss0:%d' % (yl, i + 1) for i in range(nc))
            cons = ','.join('%sr0' % yl for _ in range(np_))
            yield ['def 0 ' + prod, 'def 0 ' + cons] + ['new 1 1'] * nc + ['new 0 1'] * np_ + ['pass'] * (2 * max(np_, nc) + 3)
            yield ['def 0 ' + prod, 'def 0 ' + cons] + ['new 0 1'] * np_ + ['new 1 1'] * nc + ['pass'] * (2 * max(np_, nc) + 3)
            yield ['def 0 ' + prod, 'def 0 ' + cons, 'new 0 1', 'new 1 1', 'pass', 'new 1 1', 'new 0 1', 'pass', 'new 0 1', 'new 1 1'] + ['pass'] * 6
    # ---- Broadcast: post with no waiters, then a waiter; Mutex: unlock by a non-owner / without a holder, lock twice by the owner,
    #      a routine that returns while holding the mutex (the others stay blocked: it is not free), Locker-like nesting
    yield ['def 0 p0,p0,b0,s0:1', 'def 0 p0', 'new 0 1', 'pass', 'new 1 1', 'pass', 'pass']
    yield ['def 0 l0,w,u0', 'def 0 u0,l0,s0:1,u0', 'def 0 u0,u1', 'new 0 1', 'new 1 1', 'new 2 1', 'pass', 'pass', 'resume 0', 'pass', 'pass', 'pass']
    yield ['def 0 l0,l0,y,u0,u0,l0', 'def 0 l0,s0:1', 'new 0 1', 'new 1 1', 'pass', 'pass', 'pass', 'pass']
    yield ['def 0 l0', 'def 0 l0,s0:1', 'new 0 1', 'new 1 1', 'new 1 1', 'pass', 'pass', 'pass', 'cancel 1', 'pass', 'cleanup']   # holder returned: mutex stays held for ever
    yield ['def 0 l0,y', 'def 0 j0,l0,s0:1', 'new 0 1', 'new 1 1', 'pass', 'pass', 'pass', 'pass', 'cleanup']                       # returns while joined AND holding
    # ---- Semaphore k has initial count k: exhaust it exactly, one more blocks; releases beyond the initial count
    for k in range(4):
        yield ['def 0 ' + ','.join(['a%d' % k] * (k + 1)) + ',s0:1', 'def 0 v%d' % k, 'new 0 1', 'pass', 'pass', 'new 1 1', 'pass', 'pass']
        yield ['def 0 ' + ','.join(['v%d' % k] * 3 + ['a%d' % k] * (k + 4)) + ',s0:1', 'new 0 1', 'pass', 'main v%d' % k, 'pass', 'pass']
    # ---- Condition: kAll (0, 2) / kAny (1, 3); add between two waits, post of a key of the previous round, add of a key twice
    for k in (0, 1):
        yield ['def 0 ca%d:1,ca%d:1,ca%d:2,cw%d,ca%d:3,cw%d,s0:1' % (k, k, k, k, k, k), 'def 0 cp%d:1' % k, 'def 0 cp%d:2' % k, 'def 0 cp%d:3' % k,
               'new 0 1', 'pass', 'new 1 1', 'pass', 'new 2 1', 'pass', 'new 1 1', 'new 2 1', 'pass', 'new 3 1', 'pass', 'pass']
        yield ['def 0 cw%d,ca%d:1,cw%d,cw%d,s0:1' % (k, k, k, k), 'new 0 1', 'pass', 'main cp%d:1' % k, 'pass', 'pass']     # wait with nothing added fails; re-wait after satisfaction fails
    # ---- calls from the MAIN context: the wake-up paths (a send / release / post / Condition::post made by an event callback), and every
    #      member that is reserved for routines (abort() of the debug build)
    for w, sig in (('r0', 's0:5'), ('a0', 'v0'), ('b0', 'p0'), ('ca0:1,cw0', 'cp0:1'), ('ca1:1,ca1:2,cw1', 'cp1:2')):
        for nw in (1, 2, 3):
            yield ['def 0 %s,s1:1' % w] + ['new 0 1'] * nw + ['pass', 'main ' + sig, 'pass', 'main ' + sig, 'pass', 'pass']
            yield ['def 0 %s,s1:1' % w] + ['new 0 1'] * nw + ['pass', 'main ' + sig, 'main ' + sig, 'cancel 0', 'pass', 'pass']
            yield ['def 0 %s,s1:1' % w, 'main ' + sig, 'main ' + sig] + ['new 0 1'] * nw + ['pass', 'pass', 'main ' + sig, 'pass']
    yield ['main s0:1', 'main s0:2', 'main r0', 'main r0', 'main s1:3', 'def 0 r1,r0', 'new 0 1', 'pass', 'main s0:4', 'pass', 'main r0']
    yield ['main a3', 'main a3', 'main a3', 'main v0', 'main a0', 'main ca0:1', 'main cp0:1', 'main cw0', 'main cp0:9', 'main a3']
    for bad in ('y', 'w', 'r0', 'l0', 'u0', 'a0', 'b0', 'j0', 'j63'):
        yield ['def 0 l0,w', 'new 0 1', 'pass', 'main s1:1', 'main ' + bad, 'pass', 'main s1:2']
        yield ['main ' + bad, 'pass']
    yield ['main ca2:1', 'main cw2', 'pass']
    yield ['def 0 ca2:1,cw2', 'new 0 1', 'pass', 'main cw2', 'main ca3:1', 'main cw3', 'pass']
    yield ['main n0', 'main x0', 'main e', 'main t', 'main K', 'main', 'main s0:1 1', 'main q', 'def 0 t,', 'def 0 K1', 'pass']
    # ---- an exception that leaves a routine body (std::terminate), Scheduler::cleanup() inside a routine (TBOX_ASSERT)
    for pre in ('', 'y,', 'r0,', 'l0,y,', 's0:1,y,y,'):
        for op in ('t', 'K'):
            yield ['def 0 %s%s,s1:1' % (pre, op), 'def 0 j0,s1:2', 'def 0 s0:7,l0', 'new 0 1', 'new 1 1', 'pass', 'new 2 1', 'pass', 'pass', 'pass']
            yield ['def 0 %s%s,s1:1' % (pre, op), 'new 0 1', 'pass', 'cleanup', 'pass']
            yield ['def 1 %s%s,s1:1' % (pre, op), 'new 0 1', 'pass', 'cancel 0', 'pass', 'pass']
            yield ['def 0 %s%s' % (pre, op), 'new 0 0', 'pass', 'cleanup', 'resume 0', 'pass']       # never started: deleted, never runs
    # ---- width / sign of Semaphore::count_ (an int): initial counts on both sides of 0, 2^15, 2^16, 2^31; releases up to and beyond INT_MAX
    IM = 2147483647
    for init in (0, 1, 2, 3, -1, -2, -3, 32767, 32768, 65535, 65536, IM - 2, IM - 1, IM, -IM, -IM - 1):
        pats = ['a', 'va', 'vva', 'vvva', 'av', 'vaa', 'aa', 'vvvaaaa', 'vvvvaaaaa', 'vavava', 'vvv', 'vvvavvvaa']
        yield ['def 0 a0,s0:1', 'new 0 1'] + ['semw %d %s' % (init, p_) for p_ in pats] + ['main v0', 'pass']
    yield ['semw 2147483648 a', 'semw -2147483649 a', 'semw 1 ax', 'semw 01 a', 'semw -0 a', 'semw 1', 'semw x a', 'semw 1 ' + 'a' * 65, 'semw -1 v', 'pass']
    # ---- many routines (keys / tokens / cabinet growth): a spawner creates N routines in one switch
    for n, body in ((300, 'r0,s1:1'), (2000, 'y,y')):
        yield ['stack 64', 'def 0 ' + body, 'def 0 ' + ','.join(['n0'] * n), 'new 1 1', 'pass', 'pass', 'main s0:1', 'pass', 'pass', 'cleanup']


def round5_families():
    """directed, deterministic (round 5).
    (1) stack sizes from 0 (patches/C18-08: clamp to ROUTINE_STACK_MIN_SIZE; as found, makecontext wrote below a malloc(0) block),
    (2) Mutex::Locker scripts (`defr`): scope left by the end of the script, by `e` (return) inside nested scopes, by a routine that
        is cancelled INSIDE the critical section (blocked there / about to run), a Locker whose constructor's lock() FAILED because the
        routine was cancelled while waiting (it enters the critical section without the mutex; ~Locker must not release the holder's
        lock), nesting on two mutexes and on the SAME mutex (the inner scope's end releases it), cleanup() with scopes open,
    (3) state-derived arguments: cancel / resume / join of the routine's OWN token, of the token create() has just returned, of the
        joiner / the holder / a finished routine / an unknown key; Scheduler::resume() called from inside a routine (`R<t>`)."""
    # ---- (1) stack sizes: both sides of every power of two up to the clamp, around the default, then normal sizes again
    sizes = [0, 1, 7, 8, 15, 16, 17, 23, 24, 31, 32, 33, 63, 64, 65, 100, 127, 128, 255, 256, 257, 511, 512, 1023, 1024, 1025,
             2047, 2048, 2049, 4095, 4096, 4097, 8191, 8192, 8193, 16384, 65536]
    body = 'y,s0:1,r0,l0,u0,ca0:1,cp0:1,a1,v1,p0'
    for i in range(0, len(sizes), 3):
        grp = sizes[i:i + 3]
        ops = ['def 0 ' + body, 'def 0 n0,j1,y,x0,R0', 'defr l0,l1,y,r3']
        for k, b in enumerate(grp):
            ops += ['stackb %d' % b, 'new %d %d' % (k % 3, 1 if k != 1 else 0)]
        ops += ['pass', 'resume 1', 'pass', 'stackb 0', 'new 0 1', 'pass', 'pass', 'cancel 2', 'pass', 'cleanup']
        yield ops
    yield ['stackb 0', 'def 0 -', 'new 0 1', 'new 0 0', 'pass', 'cleanup']                       # nothing runs on the stack but the entry frame
    yield ['stackb 0', 'def 0 ' + ','.join(['n0'] * 40), 'def 0 y', 'new 0 0', 'stackb 1', 'def 0 N0,n1,n1', 'new 2 1', 'pass', 'resume 0', 'pass', 'pass', 'cleanup']
    yield ['stackb 1000000', 'stackb 999999', 'stackb 0x10', 'stackb -1', 'stackb', 'stackb 1 2', 'stack 0', 'stackb 00', 'pass']
    # ---- (2) Mutex::Locker
    for blk in ('r1', 'w', 'a0', 'b0', 'j0', 'y', 'ca0:1,cw0'):
        # the holder is cancelled while it is blocked INSIDE the critical section; a plain locker and a Locker wait for the mutex
        yield ['defr l0,%s,s2:1,u0,s2:2' % blk, 'def 0 l0,s2:3,u0', 'defr l0,s2:4', 'new 0 1', 'new 1 1', 'new 2 1', 'pass', 'cancel 0', 'pass', 'pass', 'pass']
        # ... and never reaches the end of the scope in the script: the scope is left when the routine returns
        yield ['defr l0,%s,e,s2:1,u0' % blk, 'def 0 l0,s2:3,u0', 'new 0 1', 'new 1 1', 'pass', 'cancel 0', 'pass', 'pass']
        yield ['defr l0,l1,%s' % blk, 'def 1 l1,s2:3,u1,l0,s2:4,u0', 'new 0 1', 'new 1 1', 'pass', 'cleanup', 'pass']
        yield ['defr l0,l1,%s' % blk, 'def 0 l1,s2:3,u1,l0,s2:4,u0', 'new 0 1', 'new 1 1', 'pass', 'cancel 0', 'pass', 'pass', 'resume 0', 'pass']
    for who in (1, 2):
        # a Locker whose constructor waits for the mutex is cancelled: lock() fails, the routine runs the critical section WITHOUT
        # the mutex, ~Locker must leave the holder's lock alone; the other waiter is served only after the holder unlocks
        yield ['def 0 l0,w,s2:9,u0', 'defr l0,s2:5,y,s2:6,u0,s2:7', 'def 0 l0,s2:8,u0', 'new 0 1', 'new 1 1', 'new 2 1', 'pass',
               'cancel %d' % who, 'pass', 'pass', 'resume 0', 'pass', 'pass', 'pass']
        yield ['def 0 l0,w,s2:9,u0', 'defr l0,s2:5,y,s2:6', 'defr l0,s2:8', 'new 0 1', 'new 1 1', 'new 2 1', 'pass',
               'cancel %d' % who, 'pass', 'resume 0', 'pass', 'pass', 'pass', 'cleanup']
    # nesting: two mutexes in the same and in opposite order (the second deadlocks until cancel), the SAME mutex twice (inner end releases)
    yield ['defr l0,y,l1,s2:1,u1,y,u0', 'defr l0,y,l1,s2:2,u1,u0', 'new 0 1', 'new 1 1'] + ['pass'] * 8
    yield ['defr l0,y,l1,s2:1,u1,u0', 'defr l1,y,l0,s2:2,u0,u1', 'new 0 1', 'new 1 1', 'pass', 'pass', 'pass', 'cancel 0', 'pass', 'pass', 'pass']
    yield ['defr l0,l0,s2:1,u0,y,s2:2,u0', 'defr l0,s2:3,u0', 'new 0 1', 'new 1 1', 'pass', 'pass', 'pass', 'pass']
    yield ['defr l0,l0,l0,y,e', 'def 0 l0,s2:3', 'new 0 1', 'new 1 1', 'pass', 'pass', 'pass']
    yield ['defr l0,u1,u0,u0,l1,l2,u1,y,s2:1', 'def 0 y,l1,s2:2,u1,l2,s2:3,u2', 'new 0 1', 'new 1 1', 'pass', 'pass', 'pass', 'pass']   # `u` of a mutex that is not the innermost scope: plain unlock()
    yield ['defr l0,l1,l2,l3,t', 'def 0 l3,s2:1', 'new 0 1', 'new 1 1', 'pass', 'pass']                                    # exception inside the scopes: std::terminate
    yield ['defr l0,n1,y,j1,u0', 'defr l0,s2:1', 'new 0 1', 'pass', 'pass', 'pass', 'pass']                                # the holder joins a routine that needs the mutex: stuck until cancel
    yield ['defr l0,n1,y,j1,u0', 'defr l0,s2:1', 'new 0 1', 'pass', 'pass', 'cancel 0', 'pass', 'pass', 'pass']
    yield ['defr l0', 'defr -', 'defr e', 'defr l0,', 'defr', 'defr 0 l0', 'defr l9', 'new 0 1', 'new 1 1', 'new 2 1', 'pass', 'main l0']
    # ---- (3) state-derived arguments
    for self_op in ('x0', 'R0', 'j0'):
        for blk in ('r1', 'l1', 'a0', 'b0', 'w', 'y', 'ca0:1,cw0', 'j1', 'j0'):
            yield ['def 0 %s,%s,s2:1,%s,y,s2:2' % (self_op, blk, self_op), 'def 0 l1,w', 'new 1 1', 'new 0 1', 'pass', 'pass', 'pass', 'resume 0', 'pass', 'pass']
    for act in ('x', 'R', 'j'):
        # the token create() has just returned (index 1 / 2), started or not, before it has run
        yield ['def 0 n1,%s1,N1,%s2,y,%s1,%s2,s2:1' % (act, act, act, act), 'def 0 r0,s2:2', 'new 0 1', 'pass', 'pass', 'main s0:1', 'pass', 'resume 2', 'pass', 'main s0:2', 'pass', 'pass']
        yield ['def 1 n1,%s1,N1,%s2,y,%s1,%s2,s2:1' % (act, act, act, act), 'def 1 r0,s2:2', 'new 0 1', 'pass', 'pass', 'main s0:1', 'pass', 'resume 2', 'pass', 'cleanup']
    # resume / cancel of the joiner by the target, of the holder by a waiter, of a finished routine, of an unknown key; send of the receiver's index
    yield ['def 0 y,R1,y,x1,y', 'def 0 j0,s2:1', 'new 0 1', 'new 1 1'] + ['pass'] * 6
    yield ['def 0 l0,w,u0', 'def 0 R0,l0,s2:1,u0,R0,x0', 'new 0 1', 'new 1 1', 'pass', 'pass', 'pass', 'resume 0', 'pass', 'pass']
    yield ['def 0 -', 'def 0 y,R0,x0,j0,R63,x63,j63,R1,s2:1', 'new 0 1', 'new 1 1', 'pass', 'pass', 'pass', 'pass']
    yield ['def 0 r0,r0', 'def 0 s0:0,s0:1,s0:0', 'new 0 1', 'new 0 1', 'pass', 'new 1 1', 'pass', 'pass', 'pass']
    # R<t> as the wake-up of a hand-made wait(): a routine parks in wait(), another resumes it (twice: the second is refused or spurious)
    for nw in (1, 2, 3):
        yield ['def 0 w,s2:1,w,s2:2', 'def 0 ' + ','.join('R%d' % k for k in range(nw)) + ',R0,y,R0'] + ['new 0 1'] * nw + ['pass', 'new 1 1', 'pass', 'pass', 'pass', 'pass']
    # R of a routine blocked in a primitive (spurious wake-up issued by a routine): it must re-register and still be served
    for w, sig in (('r0', 's0:5'), ('a0', 'v0'), ('l0,u0', 'u0'), ('b0', 'p0'), ('ca0:1,cw0', 'cp0:1')):
        yield ['def 0 l0,w,u0', 'def 0 %s,s2:1' % w, 'def 0 R1,R1,y,R1,%s' % sig, 'new 0 1', 'new 1 1', 'pass', 'new 2 1', 'pass', 'pass', 'resume 0', 'pass', 'pass', 'pass']


def gen_locker(rng):
    """random RAII programs: Locker scripts and plain lockers on two mutexes, cancel / resume / cleanup at random passes"""
    nr = rng.choice([2, 3, 4])
    ops = []
    for d in range(nr):
        toks = []
        for _ in range(rng.choice([2, 3, 5, 7])):
            m = rng.randrange(2)
            toks.append(rng.choice(['l%d' % m, 'l%d' % m, 'u%d' % m, 'u%d' % m, 'y', 'y', 'w', 'r1', 's1:%d' % rng.randrange(1, 9), 's2:%d' % rng.randrange(1, 9), 'e',
                                    'a0', 'b0', 'x%d' % rng.randrange(nr), 'R%d' % rng.randrange(nr), 'j%d' % rng.randrange(nr)]))
        ops.append(('defr ' if rng.random() < 0.6 else 'def %d ' % rng.randrange(2)) + ','.join(toks))
    for d in range(nr):
        ops.append('new %d 1' % d)
    for _ in range(rng.choice([4, 6, 9])):
        r = rng.random()
        ops.append('pass' if r < 0.55 else 'cancel %d' % rng.randrange(nr) if r < 0.7 else 'resume %d' % rng.randrange(nr) if r < 0.85 else
                   'main s1:3' if r < 0.9 else 'new %d 1' % rng.randrange(nr) if r < 0.96 else 'cleanup')
    return ops + ['pass', 'pass']


def gen_matched(rng):
    """a program of the class of `C18_progress` (producers / consumers / lockers, receives <= sends, acquires <= k + releases):
    the model ends with every routine dead, so must the real scheduler; passes until nothing can be ready any more"""
    c, k, m = rng.randrange(PR), rng.randrange(PR), rng.randrange(PR)
    nprod, ncons, nlock = rng.choice([1, 2, 3]), rng.choice([1, 2, 3]), rng.choice([0, 1, 2, 3])
    sends = rels = 0
    defs = []
    for _ in range(nprod):
        ops = [rng.choice(['y', 's%d:%d' % (c, rng.randrange(1, 100)), 'v%d' % k]) for _ in range(rng.randrange(1, 6))]
        sends += sum(o.startswith('s') for o in ops); rels += sum(o.startswith('v') for o in ops)
        defs.append(ops)
    for _ in range(nlock):
        ops = []
        for _ in range(rng.choice([1, 2])):
            body = [rng.choice(['y', 's%d:%d' % (c, rng.randrange(1, 100)), 'v%d' % k]) for _ in range(rng.randrange(0, 3))]
            sends += sum(o.startswith('s') for o in body); rels += sum(o.startswith('v') for o in body)
            ops += ['l%d' % m] + body + ['u%d' % m] + rng.choice([[], ['y']])
        defs.append(ops)
    recvs, acqs = rng.randrange(0, sends + 1), rng.randrange(0, rels + k + 1)
    cons = [[] for _ in range(ncons)]
    for _ in range(recvs): cons[rng.randrange(ncons)].append('r%d' % c)
    for _ in range(acqs): cons[rng.randrange(ncons)].append('a%d' % k)
    for l in cons:
        rng.shuffle(l)
        if rng.random() < 0.5: l.insert(rng.randrange(len(l) + 1), 'y')
    defs += cons
    order = list(range(len(defs))); rng.shuffle(order)
    total = sum(len(d) for d in defs)
    return ['def 0 ' + (','.join(d) or '-') for d in defs] + ['new %d 1' % i for i in order] + ['pass'] * (total + 3)


def gen_matched2(rng):
    """round 5: the enlarged class of `C18_progress`: lockers with NESTED critical sections taken in strictly decreasing mutex order,
    consumers that also `join` routines created earlier (acyclic join graph); the model ends with every routine dead"""
    c, k = rng.randrange(PR), rng.randrange(PR)
    defs, sends, rels = [], 0, 0
    def simple():
        nonlocal sends, rels
        o = rng.choice(['y', 's%d:%d' % (c, rng.randrange(1, 100)), 'v%d' % k])
        sends += o.startswith('s'); rels += o.startswith('v')
        return o
    for _ in range(rng.choice([1, 2])):
        defs.append([simple() for _ in range(rng.randrange(1, 5))])
    for _ in range(rng.choice([1, 2, 3])):
        ms = sorted(rng.sample(range(PR), rng.choice([1, 2, 2, 3])), reverse=True)
        ops = []
        for m in ms:
            ops += ['l%d' % m] + [simple() for _ in range(rng.randrange(0, 2))]
        for m in reversed(ms):
            ops += [simple() for _ in range(rng.randrange(0, 2))] + ['u%d' % m]
        defs.append(ops)
    recvs, acqs = rng.randrange(0, sends + 1), rng.randrange(0, rels + k + 1)
    ncons = rng.choice([1, 2, 3])
    base = len(defs)
    cons = [[] for _ in range(ncons)]
    for _ in range(recvs): cons[rng.randrange(ncons)].append('r%d' % c)
    for _ in range(acqs): cons[rng.randrange(ncons)].append('a%d' % k)
    for i, l in enumerate(cons):
        rng.shuffle(l)
        for _ in range(rng.choice([0, 1, 2])):
            l.insert(rng.randrange(len(l) + 1), 'j%d' % rng.randrange(base + i))
    defs += cons
    total = sum(len(d) for d in defs)
    return ['def 0 ' + (','.join(d) or '-') for d in defs] + ['new %d 1' % i for i in range(len(defs))] + ['pass'] * (total + 4)


# ---- "posted by the main context" program class (Broadcast waiters / Condition waiters that add their own keys): ordered programs end
# with every routine dead, a near miss (one needed post before the `new`, dropped, or two posts swapped) leaves a routine suspended for ever.
def _bc_ops(defs, evs):
    """defs: list of lists of broadcast indices (script = b<k>,...); evs: ('n', d) new | ('p', k) main post | ('-',) pass"""
    ops = ['def 0 ' + ','.join('b%d' % k for k in d) for d in defs]
    for e in evs:
        ops.append('new %d 1' % e[1] if e[0] == 'n' else 'main p%d' % e[1] if e[0] == 'p' else 'pass')
    return ops + ['pass']


def _bc_hung(defs, evs):
    """oracle used only to CHOOSE cases: routines left suspended (greedy left-to-right matching of each routine's waits against later posts)"""
    waiting = []
    for e in evs:
        if e[0] == 'n':
            waiting.append(list(defs[e[1]]))
        elif e[0] == 'p':
            for w in waiting:
                if w and w[0] == e[1]:
                    w.pop(0)
    return sum(1 for w in waiting if w)


def _bc_near(defs, evs):
    """every one-step perturbation (drop a post / move a post before an earlier `new` / swap two neighbouring posts) that breaks the order"""
    out = []
    P = [i for i, e in enumerate(evs) if e[0] == 'p']
    N = [i for i, e in enumerate(evs) if e[0] == 'n']
    for i in P:
        out.append(('drop', evs[:i] + evs[i + 1:]))
        for j in N:
            if j < i:
                out.append(('move', evs[:j] + [evs[i]] + evs[j:i] + evs[i + 1:]))
    for a, b in zip(P, P[1:]):
        if evs[a] != evs[b]:
            s = list(evs); s[a], s[b] = s[b], s[a]
            out.append(('swap', s))
    res, seen = [], set()
    for kind, e in out:
        h = _bc_hung(defs, e)
        if h >= 1 and tuple(e) not in seen:
            seen.add(tuple(e)); res.append((kind, e, h))
    return res


def _cd_ops(ks, evs):
    """definition i = waiter on condition ks[i] (ca:1, ca:2, cw); evs: ('n', i) | ('c', k, v) main Condition::post | ('-',)"""
    ops = ['def 0 ca%d:1,ca%d:2,cw%d' % (k, k, k) for k in ks]
    for e in evs:
        ops.append('new %d 1' % e[1] if e[0] == 'n' else 'main cp%d:%d' % (e[1], e[2]) if e[0] == 'c' else 'pass')
    return ops + ['pass']


def order_families(full=False):
    """directed, deterministic: Broadcast waiters posted by the main context; Condition waiters (each adds its own keys) posted by the main
    context; the same with a designated poster ROUTINE created last. `full` (thorough) = every near miss instead of <= 2 per program."""
    n, p, ps = (lambda d: ('n', d)), (lambda k: ('p', k)), ('-',)
    bases = []
    # several waiters on one broadcast
    for nw in (2, 3, 5):
        bases.append(([[0]], [n(0)] * nw + [p(0)]))
    # the same routine re-waits on the same broadcast: three separate posts; a second instance joins late; posts with nobody waiting (p1)
    bases.append(([[0, 0, 0]], [n(0), p(0), p(1), p(0), p(0)]))
    bases.append(([[0, 0, 0], [0]], [p(0), n(0), p(0), n(1), n(0), p(0), p(1), p(0), p(0)]))
    # different broadcasts, opposite orders, a one-shot waiter
    bases.append(([[0, 1], [1, 0], [0]], [n(0), n(1), n(2), p(0), p(1), p(0), p(1)]))
    bases.append(([[0, 1, 2, 3], [3, 2, 1, 0]], [n(0), n(1), p(0), p(1), p(2), p(3), p(2), p(1), p(0)]))
    # `new` interleaved with the posts; extra posts before anybody waits and after everybody is done
    bases.append(([[0, 1], [1]], [p(0), p(1), n(0), p(0), n(1), n(1), p(1), n(0), p(2), p(0), p(1), p(3)]))
    bases.append(([[2, 2], [2, 3, 2]], [n(0), n(1), p(2), n(0), p(3), p(2), p(2), p(3)]))
    bases.append(([[1, 0, 1, 0], [0, 1], [1]], [n(0), p(1), n(1), n(2), p(0), ps, p(1), p(0), n(0), p(1), p(0), p(1), p(0)]))
    for bi, (defs, evs) in enumerate(bases):
        assert _bc_hung(defs, evs) == 0
        yield _bc_ops(defs, evs)
        near = _bc_near(defs, evs)
        if not full:
            # at most two per program: rotate over the kinds, prefer the sharp edge (exactly one routine left suspended)
            pick = []
            for kind in (('drop', 'move', 'swap') * 2)[bi % 3:][:3]:
                c = [x for x in near if x[0] == kind and x[2] == 1] or [x for x in near if x[0] == kind]
                if c and len(pick) < 2:
                    pick.append(c[(bi // 3) % len(c)])
            near = pick
        for _, e, _ in near:
            yield _bc_ops(defs, e)
    # ---- Condition, "the waiter adds, the main context posts": even index = kAll (both keys, after the `new`), odd = kAny (one key after)
    c = lambda k, v: ('c', k, v)
    for k in range(PR):
        k2 = (k + 1) % PR                                  # a companion waiter on another condition, always served
        comp = [n(1), c(k2, 2), c(k2, 1)]
        if k % 2 == 0:
            good = [[n(0), c(k, 1), c(k, 2)], [n(0), c(k, 2), c(k, 7), c(k, 1)], [c(k, 1), n(0), c(k, 2), c(k, 2), c(k, 1)]]
            bad = [[c(k, 1), n(0), c(k, 2)], [c(k, 2), c(k, 1), n(0), c(k, 1)], [n(0), c(k, 1), c(k, 1), c(k, 3)], [n(0), c(k, 2)]]
        else:
            good = [[n(0), c(k, 1)], [n(0), c(k, 7), c(k, 2)], [c(k, 1), n(0), c(k, 2)]]
            bad = [[c(k, 1), n(0)], [c(k, 2), c(k, 1), n(0), c(k, 3)], [n(0), c(k, 0), c(k, 3)]]
        for evs in (good + bad if k < 2 else good[:1] + bad[:2]):
            yield _cd_ops([k, k2], evs[:1] + comp[:1] + evs[1:] + comp[1:])
    # all four conditions at once, posts interleaved; then with one needed post moved before its waiter exists / dropped
    allc = [n(0), n(1), c(0, 1), n(2), c(1, 2), c(2, 2), n(3), c(0, 2), c(3, 1), c(2, 1)]
    yield _cd_ops([0, 1, 2, 3], allc)
    yield _cd_ops([0, 1, 2, 3], [c(2, 2)] + [e for e in allc if e != c(2, 2)])
    yield _cd_ops([0, 1, 2, 3], [e for e in allc if e != c(0, 2)])
    yield _cd_ops([0, 1, 2, 3], [c(3, 1)] + [e for e in allc if e != c(3, 1)])
    # the one waiter re-arms its condition (second round with a new key): a key of the PREVIOUS round must be a no-op (kAny clears every
    # key on the first post; kAll has consumed them one by one), so posting it instead of the new key leaves the waiter suspended
    for k in range(PR):
        two = ['def 0 ca%d:1,ca%d:2,cw%d,ca%d:%d,cw%d' % (k, k, k, k, 3 if k % 2 else 1, k), 'new 0 1']
        first = ['main cp%d:1' % k] + (['main cp%d:2' % k] if k % 2 == 0 else [])
        yield two + first + ['main cp%d:%d' % (k, 3 if k % 2 else 1), 'pass']
        yield two + first + ['main cp%d:2' % k, 'pass']
    # the MAIN context add()s the keys, the routine only waits, the main context posts (near miss: a value that was never added / one short)
    for k in (0, 1, 2):
        pre = ['def 0 cw%d' % k, 'def 0 b2', 'main ca%d:1' % k] + (['main ca%d:2' % k] if k % 2 == 0 else []) + ['new 0 1', 'new 1 1']
        need = ['main cp%d:1' % k] + (['main cp%d:2' % k] if k % 2 == 0 else [])
        yield pre + need + ['main p2', 'pass']
        yield pre + need[:-1] + ['main cp%d:3' % k, 'main p2', 'pass']
    # ---- a designated poster ROUTINE created after all the waiters: posts made in ONE switch are simultaneous for a re-waiting routine
    W = ['def 0 b0', 'def 0 b1', 'def 0 b0,b1', 'def 0 b0,b0,b0']
    for poster, mk in (('p0,y,p1', [0, 1, 2, 2]), ('p0,p1', [0, 1, 2]), ('p1,y,p0', [0, 1, 2]), ('p1,p0,y,p1', [2, 1, 0, 2]),
                       ('p0,y,p0,y,p0', [3, 3, 0]), ('p0,p0,y,p0', [3, 0]), ('p0,y,y,p0,p1,y,p0', [3, 2]), ('p0,y,p0', [3, 3])):
        yield W + ['def 0 ' + poster] + ['new %d 1' % d for d in mk] + ['new 4 1', 'pass', 'pass', 'pass', 'pass']
    CW = ['def 0 ca0:1,ca0:2,cw0', 'def 0 ca1:1,ca1:2,cw1', 'def 0 ca2:1,ca2:2,cw2']
    for poster in ('cp0:1,cp0:2,cp1:2,cp2:2,cp2:1', 'cp0:1,cp1:3,cp2:2,y,cp2:2', 'cp0:2,y,cp1:1,cp0:1,cp2:1', 'cp0:1,cp0:1,cp1:0,y,cp2:1,cp2:2'):
        yield CW + ['def 0 ' + poster, 'new 0 1', 'new 1 1', 'new 2 1', 'new 3 1', 'pass', 'pass']
    # the poster satisfies the condition and add()s a fresh key in the SAME switch, before the woken waiter has run: the waiter must leave
    # that key alone (post() has already released the registration), its second wait() is served by the poster's later post
    for k in (0, 1):
        keys = 'ca%d:1,ca%d:2' % (k, k) if k == 0 else 'ca%d:1' % k
        sat = 'cp%d:1,cp%d:2' % (k, k) if k == 0 else 'cp%d:1' % k
        for tail in ('y,cp%d:5' % k, 'y,cp%d:1' % k):
            yield ['def 0 %s,cw%d,cw%d' % (keys, k, k), 'def 0 %s,ca%d:5,%s,p2' % (sat, k, tail), 'def 0 b2', 'new 0 1', 'new 2 1', 'new 1 1', 'pass', 'pass', 'pass']

    # ---- MIXED class: Broadcast and Condition ops in one script, condition objects SHARED between routines (one waiter slot per
    #      condition: of two routines woken by one broadcast post the first in registration order takes it, the other's wait() is refused)
    mx, mx2 = 'def 0 b0,ca2:1,cw2,b1', 'def 0 ca1:4,ca1:5,cw1,b0'
    yield [mx, mx2, 'new 0 1', 'new 0 1', 'new 1 1', 'main cp1:5', 'main p0', 'main cp2:1', 'pass', 'main p1', 'pass']
    yield [mx, mx2, 'new 0 1', 'new 0 1', 'new 1 1', 'main p0', 'main cp1:5', 'main cp2:1', 'pass', 'main p1', 'pass']   # near miss: b0 posted before the third routine gets there
    yield [mx, 'new 0 1', 'main p0', 'main cp2:1', 'main p1', 'pass']
    yield [mx, 'new 0 1', 'main p0', 'main p1', 'main cp2:1', 'pass']                   # near miss: suspended in Broadcast 1 for ever
    yield [mx, 'new 0 1', 'main cp2:1', 'main p0', 'main p1', 'pass']                   # near miss: post before the add
    yield [mx, 'main ca2:6', 'new 0 1', 'main p0', 'main cp2:1', 'main p1', 'main cp2:6', 'main p1', 'pass']   # a key added by the main context counts
    for k in range(PR):
        for nw in ((3, 4) if k < 2 else (3,)):
            defs = ['def 0 b0,ca%d:%d,cw%d' % (k, v, k) for v in range(1, nw + 1)]
            mk = ['new %d 1' % d for d in range(nw)]
            posts = ['main cp%d:%d' % (k, v) for v in range(1, nw + 1)]
            if k % 2 == 0:
                yield defs + mk + ['main p0'] + posts + ['pass']
                yield defs + mk + ['main p0'] + posts[::-1][1:] + ['pass']       # near miss: one key short (the key of a REFUSED routine counts too)
            else:
                yield defs + mk + ['main p0'] + posts[-1:] + ['pass']
                yield defs + mk + ['main p0', 'main cp%d:9' % k, 'pass']          # near miss: a key nobody added


def gen_mixed(rng):
    """random program of the mixed class: scripts over b<k> / ca<k>:<v> / cw<k>, main ops new / pass / main p / main cp / main ca"""
    nd = rng.choice([1, 2, 3])
    ops = []
    for _ in range(nd):
        toks = []
        for _ in range(rng.choice([1, 2, 3])):
            k = rng.randrange(2) if rng.random() < 0.7 else rng.randrange(PR)
            toks += ['b%d' % k] if rng.random() < 0.45 else ['ca%d:%d' % (k, rng.randrange(1, 4))] * rng.choice([0, 1]) + ['ca%d:%d' % (k, rng.randrange(1, 4)), 'cw%d' % k]
        ops.append('def 0 ' + ','.join(toks))
    for _ in range(rng.choice([4, 8, 12, 16])):
        r, k = rng.random(), (rng.randrange(2) if rng.random() < 0.7 else rng.randrange(PR))
        ops.append('new %d 1' % rng.randrange(nd) if r < 0.3 else 'main p%d' % k if r < 0.55 else 'main cp%d:%d' % (k, rng.randrange(1, 4)) if r < 0.85
                   else 'main ca%d:%d' % (k, rng.randrange(1, 4)) if r < 0.92 else 'pass')
    return ops + ['pass']


def gen_ordered(rng):
    """random member of the Broadcast class above (ordered by construction), half of the time with one random near-miss perturbation"""
    if rng.random() < 0.25:
        return gen_mixed(rng)
    defs = [[rng.randrange(PR) if rng.random() < 0.4 else rng.randrange(2) for _ in range(rng.choice([1, 1, 2, 3, 4]))] for _ in range(rng.choice([1, 2, 3]))]
    evs, waiting, left = [], [], rng.choice([1, 2, 3, 4, 5, 6])
    while left or any(waiting):
        r = rng.random()
        heads = [w[0] for w in waiting if w]
        if left and (r < 0.35 or not heads):
            d = rng.randrange(len(defs)); evs.append(('n', d)); waiting.append(list(defs[d])); left -= 1
            continue
        if r < 0.45:
            evs.append(('-',)); continue
        k = rng.choice(heads) if heads and r < 0.92 else rng.randrange(PR)
        evs.append(('p', k))
        for w in waiting:
            if w and w[0] == k:
                w.pop(0)
    if rng.random() < 0.5:
        near = _bc_near(defs, evs)
        if near:
            sharp = [x for x in near if x[2] == 1]
            evs = rng.choice(sharp if sharp and rng.random() < 0.7 else near)[1]
    return _bc_ops(defs, evs)


def big_cases(tier):
    """scale (round 5): N routines on one channel; the driver runs the model with its tables re-tabulated into arrays (`C18_stepC_eq`)"""
    for n in ((1000,) if tier == 'quick' else (1000, 10000)):
        body = 'r0,s1:1,y,r2' if n <= 1000 else 'r0'
        yield ['stackb 0', 'def 0 ' + body, 'def 0 ' + ','.join(['n0'] * n), 'new 1 1', 'pass',
               'def 0 ' + ','.join('s0:%d' % (i % 1000) for i in range(n)), 'new 2 1', 'pass', 'pass', 'cleanup']


ALPHA = ['r0', 's0:1', 'l0', 'u0', 'a0', 'v0', 'y', 'b0', 'p0']


def gen(rng, tier):
    # malformed stream: both sides must answer bad-op
    yield ['frob', 'def 0 r0,', 'def 2 r0', 'def 0 r9', 'def 0 n0', 'new 0 1', 'def 0 s0:1000', 'def 0 r01', 'def 0 r0', 'new 0 2',
           'resume 1', 'cancel x', 'new 0 1', 'resume 0', 'cleanup now', 'pass']
    # §7-10: the four lost wake-ups of the code as found (kept as corpus too)
    yield ['def 0 r0', 'def 0 s0:1,s0:2', 'new 0 1', 'new 0 1', 'pass', 'new 1 1', 'pass', 'pass']
    yield ['def 0 a0', 'def 0 v0,v0', 'new 0 1', 'new 0 1', 'pass', 'new 1 1', 'pass', 'pass']
    yield ['def 0 l0,y,y,u0,l0,y,y,u0', 'def 0 l0,u0', 'new 0 1', 'new 1 1', 'pass', 'pass', 'pass', 'pass', 'pass', 'pass']
    yield ['def 0 r0', 'def 0 s0:7,r0', 'def 0 s0:8', 'new 0 1', 'pass', 'new 1 1', 'pass', 'new 2 1', 'pass', 'pass']
    for ops in wake_families():
        yield ops
    for ops in bookkeeping_families():
        yield ops
    for ops in audit_families():
        yield ops
    for ops in round5_families():
        yield ops
    for ops in order_families(tier == 'thorough'):
        yield ops
    n = 500 if tier == 'quick' else 6000
    for _ in range(n):
        yield gen_case(rng)
    for _ in range(n // 2):
        yield gen_backtoback(rng)
    for _ in range(n // 4):
        yield gen_matched(rng)
    for _ in range(n // 2):
        yield gen_locker(rng)
    for _ in range(n // 4):
        yield gen_matched2(rng)
    for _ in range(n // 10):          # after every older random family: their streams are unchanged for a given seed
        yield gen_ordered(rng)
    for ops in big_cases(tier):
        yield ops
    if tier == 'thorough':
        # exhaustive: 2 routines x all scripts of length <= 3 over the reduced alphabet, plus 3 routines x length <= 2
        scripts3 = [list(p) for L in range(1, 4) for p in itertools.product(ALPHA, repeat=L)]
        for a in scripts3:
            for b in scripts3:
                if len(a) + len(b) <= 5:
                    yield ['def 0 ' + ','.join(a), 'def 0 ' + ','.join(b), 'new 0 1', 'new 1 1', 'pass', 'pass', 'pass', 'cancel 0', 'pass', 'cleanup']
        scripts2 = [list(p) for L in range(1, 3) for p in itertools.product(ALPHA[:7], repeat=L)]
        for a in scripts2:
            for b in scripts2:
                if len(a) + len(b) <= 3:
                    for c in scripts2[:7]:
                        yield ['def 0 ' + ','.join(a), 'def 0 ' + ','.join(b), 'def 0 ' + ','.join(c), 'new 0 1', 'new 0 1', 'new 1 1', 'pass',
                               'new 2 1', 'pass', 'pass', 'cleanup']
        # exhaustive scripts of length 4 for one routine pair (waiter script fixed)
        for p in itertools.product(ALPHA, repeat=4):
            yield ['def 0 r0,l0,a0', 'def 0 ' + ','.join(p), 'new 0 1', 'new 0 1', 'new 1 1', 'pass', 'pass', 'pass', 'cleanup']


def nontrivial(ops, model_lines):
    tags = ' '.join(l for l in model_lines if l.startswith('B '))
    return 1 if any(t in tags for t in ('susp>=2', 'wake2', 'rewait', 'cancel-blocked', 'cleanup-started', 'spurious-resume', 'nonedge', 'main-wake', 'main-abort', 'abort')) else None


LEVEL_TEXT = ('Lean 4 theorems over a deterministic model of the coroutine scheduler and its five primitives: an inductive invariant over every '
              'reachable state (any scripts, any main-context resume/cancel/cleanup points) gives channel FIFO/exactly-once, mutual exclusion, '
              'the semaphore bound, the cabinet bookkeeping, cleanup() terminating after one sweep with every routine dead, and no lost wake-up (a routine suspended in recv/lock/acquire implies the resource is unavailable; broadcast/'
              'condition/join waiters are registered for the next post); cancel makes every blocking call fail without suspending; tied to the real '
              'scheduler on every run by differential execution of scripted ucontext routines on the real event loop; round 5: Mutex::Locker '
              '(RAII scripts: scopes left on return, also when cancelled inside; a failed constructor never releases another routine\'s lock), '
              'the stack_size argument of create() from 0 (clamp, patches/C18-08), Scheduler::resume() inside routines, progress for nested '
              'critical sections under a global lock order and acyclic joins, and an array-backed execution of the model proved equal to it; '
              'round 6: progress for Broadcast and Condition (kAll/kAny, shared objects, mixed) under an ORDER hypothesis that is a decidable '
              'predicate on the program and is proved exact (all routines Dead iff the order semantics of wait/add/post serves every wait), '
              'and no reachable state of the repaired code has a corrupt routine stack')
LEVEL_NOTE = ('trusted: Lean kernel, hand-written model + differential tie (coverage bounded by the generator, measured), ucontext, Cabinet; '
              'no sanitizer on the implementation side (plain flavour; a valgrind memcheck sample runs in both tiers, larger in thorough)')
TECHNIQUE = 'Lean 4 invariant proof over all executions of a scheduler model + model/implementation correspondence check'
DESIGN_REF = 'DESIGN.md §6 C18, §7 row 10'


# ---- thorough: a valgrind (memcheck) run of the plain-flavour harness on the corpus and a sample of generated cases.
# ASan cannot follow swapcontext; memcheck can, and it is what sees Cabinet::foreach reading freed cells (patches/C18-04).
_RUN = {'tier': 'quick', 'seed': 1, 'vg_fail': None}


def _valgrind_sample():
    import os, random, shutil
    if not shutil.which('valgrind'):
        return {'valgrind': 'not run (valgrind missing)'}
    quick = _RUN['tier'] != 'thorough'
    exe, log = vlib.build_harness(ID, SOURCES, os.path.join(vlib.VERIF, 'props', ID, 'harness.cpp'), FLAVOUR, (), LIBS)
    if exe is None:
        return {'valgrind': 'harness build failed'}
    cases = []
    cdir = os.path.join(vlib.VERIF, 'corpus', ID)
    for f in sorted(os.listdir(cdir)):
        if f.endswith('.ops'):
            cases.append([l.rstrip('\n') for l in open(os.path.join(cdir, f)) if l.strip() and not l.startswith('#')])
    rng = random.Random('%s-vg:%d' % (ID, _RUN['seed']))
    for _ in range(12 if quick else 120):
        cases.append(gen_case(rng))
    for _ in range(12 if quick else 120):
        cases.append(gen_backtoback(rng))
    aud = [c for c in audit_families() if sum(o.count(',') for o in c) < 100]      # not the many-routine cases
    cases += aud[::9] if quick else aud
    r5 = list(round5_families())
    cases += r5[:16] + r5[16::5] if quick else r5          # every stack-size case, a sample of the Locker / state-derived ones
    for _ in range(6 if quick else 60):
        cases.append(gen_locker(rng))
    text = ''.join(vlib.case_text(i, c) for i, c in enumerate(cases))
    rc, so, se = vlib.run_proc(['valgrind', '-q', '--error-exitcode=9', exe], text, 900, env={'C18_WATCHDOG': '30'})
    res = {'valgrind': {'cases': len(cases), 'exit': rc, 'errors': se.count('== Invalid') + se.count('== Conditional')}}
    if rc != 0:
        done = vlib.split_cases(so)
        bad = max(done) if done else 0
        body = vlib.case_text(0, cases[bad]) + '# valgrind memcheck reported an error (exit %s) while running this case\n# %s\n' % (
            rc, '\n# '.join(se.splitlines()[:25]))
        _RUN['vg_fail'] = vlib.write_replay(ID, 'valgrind.ops', body)
    return res


def extra_coverage():
    return _valgrind_sample()


def check(tier, seed, replay):
    import sys, json, os
    _RUN.update({'tier': tier if not replay else 'quick', 'seed': seed, 'vg_fail': None})
    import types
    me = types.SimpleNamespace(**{k: v for k, v in globals().items() if not k.startswith('__') and k != 'check'})
    rc = vlib.standard_check(me, tier, seed, replay)
    if _RUN['vg_fail']:
        print('VIOLATION property=%s replay=%s' % (ID, _RUN['vg_fail']), flush=True)
        ev = os.path.join(vlib.VERIF, 'evidence', ID + '.json')
        try:
            d = json.load(open(ev)); d['violations'] = d.get('violations', 0) + 1
            json.dump(d, open(ev, 'w'), indent=1, sort_keys=True)
        except Exception:
            pass
        return 1
    return rc
