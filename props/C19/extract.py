"""C19 table extractor: reads the codec sources of the repo and writes lean/TboxModel/C19/Gen.lean.

Everything that is *data* in the anchored sources is regenerated here on every run: Base64 encode/decode
tables, scalable-integer min/max tables (the constexpr chain is evaluated), CRC-16/CRC-32 tables, AES
S-box / inverse S-box / round constants, the 64 MD5 step lines (function, register rotation, message
index, shift, additive constant), MD5 initial state and padding, URL special-character sets."""
import os, re

M64 = (1 << 64) - 1


def strip_comments(src):
    src = re.sub(r'/\*.*?\*/', ' ', src, flags=re.S)
    src = re.sub(r'//[^\n]*', ' ', src)
    return src


def strip_if0(src):
    return re.sub(r'#if 0.*?#endif', ' ', src, flags=re.S)


def array_body(src, name):
    m = re.search(r'\b' + re.escape(name) + r'\s*\[[^\]]*\]\s*=\s*\{(.*?)\}\s*;', src, flags=re.S)
    if not m:
        raise ValueError('array %s not found' % name)
    return m.group(1)


def ints(body):
    out = []
    for tok in body.replace('\n', ' ').split(','):
        tok = tok.strip()
        if not tok:
            continue
        out.append(int(tok.rstrip('uUlL'), 0))
    return out


def chars(body):
    out = []
    for tok in re.findall(r"'(\\.|[^'])'", body):
        if tok.startswith('\\'):
            tok = {'\\\\': '\\', "\\'": "'", '\\n': '\n', '\\t': '\t', '\\0': '\0'}[tok]
        out.append(ord(tok))
    return out


def lean_list(name, ty, vals, per=16):
    lines = []
    for i in range(0, len(vals), per):
        lines.append('  ' + ', '.join(str(v) for v in vals[i:i + per]))
    return 'def %s : List %s := [\n%s]\n' % (name, ty, ',\n'.join(lines))


def extract(repo):
    rd = lambda p: open(os.path.join(repo, p), encoding='utf-8', errors='replace').read()
    out = {}
    # ---- base64
    s = strip_comments(rd('modules/util/base64.cpp'))
    out['base64en'] = chars(array_body(s, 'base64en'))
    out['base64de'] = ints(array_body(s, 'base64de'))
    m = re.search(r"#define\s+BASE64_PAD\s+'(.)'", s)
    out['base64pad'] = ord(m.group(1))
    # ---- scalable integer: evaluate the constexpr chain in 64-bit arithmetic
    s = strip_comments(rd('modules/util/scalable_integer.cpp'))
    env = {}
    for m in re.finditer(r'constexpr\s+uint64_t\s+(\w+)\s*=\s*([^;]+);', s):
        expr = m.group(2)
        if not re.fullmatch(r'[\w\s+\-*()]+', expr):
            raise ValueError('unexpected constexpr: ' + expr)
        expr = re.sub(r'\b(0[xX][0-9a-fA-F]+|\d+)[uUlL]*\b', lambda t: str(int(re.sub(r'[uUlL]+$', '', t.group(0)), 0)), expr)
        env[m.group(1)] = eval(expr, {'__builtins__': {}}, dict(env)) & M64
    def names(body):
        r = []
        for tok in body.replace('\n', ' ').split(','):
            tok = tok.strip()
            if not tok: continue
            r.append(env[tok] if tok in env else int(tok, 0))
        return r
    out['siMin'] = names(array_body(s, '_min_value_tbl'))
    out['siMax'] = names(array_body(s, '_max_value_tbl'))
    # ---- crc
    s = strip_if0(strip_comments(rd('modules/util/crc.cpp')))
    out['crc16Table'] = ints(array_body(s, 'ccitt16_table'))
    out['crc32Table'] = ints(array_body(s, 'crc32_table'))
    # ---- aes
    s = strip_comments(rd('modules/crypto/aes.cpp'))
    out['aesSbox'] = ints(array_body(s, 'Sbox'))
    out['aesInvSbox'] = ints(array_body(s, 'InvSbox'))
    out['aesRcon'] = ints(array_body(s, 'rc'))
    # ---- md5
    s = strip_comments(rd('modules/crypto/md5.cpp'))
    body = s[s.index('void Transform'):]
    body = body[:body.index('state_[0] += a')]
    steps = []
    reg = {'a': 0, 'b': 1, 'c': 2, 'd': 3}
    for m in re.finditer(r'\b(FF|GG|HH|II)\s*\(\s*([abcd])\s*,\s*([abcd])\s*,\s*([abcd])\s*,\s*([abcd])\s*,\s*x\[(\d+)\]\s*,\s*(\d+)\s*,\s*(0[xX][0-9a-fA-F]+)\s*\)', body):
        f = {'FF': 0, 'GG': 1, 'HH': 2, 'II': 3}[m.group(1)]
        regs = [reg[m.group(i)] for i in (2, 3, 4, 5)]
        if sorted(regs) != [0, 1, 2, 3]:
            raise ValueError('md5 step registers are not a permutation')
        steps.append((f, regs, int(m.group(6)), int(m.group(7)), int(m.group(8), 16)))
    out['md5Steps'] = steps
    init = []
    for i in range(4):
        m = re.search(r'state_\[%d\]\s*=\s*(0[xX][0-9a-fA-F]+)' % i, s)
        init.append(int(m.group(1), 16))
    out['md5Init'] = init
    out['md5Padding'] = ints(array_body(s, 'PADDING'))
    # width of the carry comparison in update(): `count_[0] < (plain_text_len << 3)` compares the 32-bit counter with a
    # 64-bit size_t (wide); with a uint32_t cast it is the RFC 1321 comparison (narrow). The model has both.
    m = re.search(r'if\s*\(\s*count_\[0\]\s*<\s*(.*?)\)\s*count_\[1\]\+\+', s, flags=re.S)
    if not m:
        raise ValueError('md5 carry comparison not found')
    cmp_expr = re.sub(r'\s+', '', m.group(1))
    if cmp_expr == '(plain_text_len<<3)':
        out['md5CarryWide'] = True
    elif cmp_expr in ('static_cast<uint32_t>(plain_text_len<<3)', '(uint32_t)(plain_text_len<<3)', 'uint32_t(plain_text_len<<3)'):
        out['md5CarryWide'] = False
    else:
        raise ValueError('unexpected md5 carry comparison: ' + cmp_expr)
    # the macros F G H I and ROTATE_LEFT are control/expressions: fingerprint their text so that an
    # edit there is at least visible in Gen.lean (the model transcribes them by hand)
    macros = {}
    for nm in ('F', 'G', 'H', 'I'):
        m = re.search(r'#define\s+%s\(x, y, z\)\s*(.*)' % nm, s)
        macros[nm] = re.sub(r'\s+', '', m.group(1))
    out['md5Macros'] = macros
    # ---- url
    s = strip_comments(rd('modules/http/url.cpp'))
    m = re.search(r'full_special_chars\s*=\s*R"\((.*?)\)"', s, flags=re.S)
    out['urlFull'] = [ord(c) for c in m.group(1)]
    m = re.search(r'path_special_chars\s*=\s*R"\((.*?)\)"', s, flags=re.S)
    out['urlPath'] = [ord(c) for c in m.group(1)]
    m = re.search(r'char_to_hex\s*=\s*R"\((.*?)\)"', s, flags=re.S)
    out['urlHex'] = [ord(c) for c in m.group(1)]
    return out


def render(t):
    L = ['/- GENERATED by props/C19/extract.py from the codec sources of the repo on every check run.',
         '   Do not edit: the theorems in TboxModel.C19.* re-check these tables against the standards. -/',
         'namespace Tbox.C19.Gen', '']
    L.append(lean_list('base64en', 'UInt8', t['base64en']))
    L.append(lean_list('base64de', 'UInt8', t['base64de']))
    L.append('def base64pad : UInt8 := %d\n' % t['base64pad'])
    L.append(lean_list('siMin', 'Nat', t['siMin'], 4))
    L.append(lean_list('siMax', 'Nat', t['siMax'], 4))
    L.append(lean_list('crc16Table', 'UInt16', t['crc16Table'], 8))
    L.append(lean_list('crc32Table', 'UInt32', t['crc32Table'], 6))
    L.append(lean_list('aesSbox', 'UInt8', t['aesSbox']))
    L.append(lean_list('aesInvSbox', 'UInt8', t['aesInvSbox']))
    L.append(lean_list('aesRcon', 'UInt8', t['aesRcon']))
    L.append('/-- (function 0=F 1=G 2=H 3=I, register rotation (a b c d as indices 0..3), message word, shift, constant) -/')
    L.append('def md5Steps : List (Nat × (Nat × Nat × Nat × Nat) × Nat × Nat × UInt32) := [')
    L.append(',\n'.join('  (%d, (%d, %d, %d, %d), %d, %d, %d)' % (f, r[0], r[1], r[2], r[3], k, sh, ac)
                        for (f, r, k, sh, ac) in t['md5Steps']) + ']\n')
    L.append(lean_list('md5Init', 'UInt32', t['md5Init'], 4))
    L.append(lean_list('md5Padding', 'UInt8', t['md5Padding']))
    L.append('def md5CarryWide : Bool := %s' % ('true' if t['md5CarryWide'] else 'false'))
    for nm in ('F', 'G', 'H', 'I'):
        L.append('def md5Macro%s : String := "%s"' % (nm, t['md5Macros'][nm]))
    L.append('')
    L.append(lean_list('urlFull', 'UInt8', t['urlFull']))
    L.append(lean_list('urlPath', 'UInt8', t['urlPath']))
    L.append(lean_list('urlHex', 'UInt8', t['urlHex']))
    L.append('end Tbox.C19.Gen')
    return '\n'.join(L) + '\n'


def pre_lean(repo, lean):
    text = render(extract(repo))
    path = os.path.join(lean, 'TboxModel', 'C19', 'Gen.lean')
    os.makedirs(os.path.dirname(path), exist_ok=True)
    old = open(path).read() if os.path.exists(path) else None
    if old != text:            # keep the mtime when nothing changed (no needless rebuild)
        with open(path + '.tmp', 'w') as fh:
            fh.write(text)
        os.replace(path + '.tmp', path)


if __name__ == '__main__':
    import sys
    pre_lean(sys.argv[1] if len(sys.argv) > 1 else '/repo', sys.argv[2] if len(sys.argv) > 2 else '/verif/lean')
