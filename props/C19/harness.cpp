// C19 harness: executes codec op files against the real cpp-tbox codecs and prints the
// API-observable results (same format as lean/Driver/C19.lean). Every input and output buffer is a
// heap block of EXACTLY the advertised size so that AddressSanitizer sees a one-byte overrun;
// UBSan's bounds check sees a negative / too large index into a constant table.
//
// Memory placement (round 7, lesson c): an op line may end in `@<M><i><o>` (M = R|L, i/o = 0..7). Every
// input buffer of that op then starts at an address = i (mod 8), every output buffer at o (mod 8):
//   R  right-aligned: malloc(a + n), block = last n bytes, the ASan redzone starts directly behind its
//      last byte (a one-byte over-read / over-write is a report); the a bytes in front are a canary.
//   L  left-aligned: malloc(a + n + 8), block starts a bytes after the allocation base (for a = 0 directly
//      behind ASan's left redzone), canaries of a bytes in front and 8 bytes behind.
// The models are placement independent, so every placement must give the model's answer; a damaged
// canary prints `P GUARD-OVERWRITTEN`.
// Aborting preconditions (TBOX_ASSERT) are observed for real: the call runs in a forked child and the
// parent reports how the child ended (`assert` = SIGABRT).
#include "vh.h"
#include <cstring>
#include <memory>
#include <stdexcept>
#include <functional>
#include <algorithm>
#include <csignal>
#include <fcntl.h>
#include <unistd.h>
#include <sys/wait.h>
#include <tbox/util/base64.h>
#include <tbox/util/string.h>
#include <tbox/util/scalable_integer.h>
#include <tbox/util/serializer.h>
#include <tbox/util/crc.h>
#include <tbox/util/checksum.h>
#include <tbox/http/url.h>
#include <tbox/crypto/md5.h>
#include <tbox/crypto/aes.h>

using namespace tbox;
using Bytes = std::vector<uint8_t>;

struct Place { char mode = 0; unsigned ain = 0, aout = 0; };
static Place g_pl;
static bool g_guard_bad = false;

// heap block of exactly `n` bytes at the placement selected for the current op (a valid non-null pointer also for n = 0)
struct Exact {
    uint8_t *base = nullptr, *ptr = nullptr; size_t n = 0, pre = 0, post = 0;
    void alloc(size_t size, unsigned align) {
        n = size;
        pre = g_pl.mode ? align : 0;
        post = g_pl.mode == 'L' ? 8 : 0;
        base = (uint8_t *)malloc(pre + n + post);      // 16-byte aligned base, ASan redzones on both sides
        if (!base) { std::cout << "CRASH no-memory\n" << std::flush; _exit(3); }
        ptr = base + pre;
        if (pre) memset(base, 0xC3, pre);
        if (post) memset(ptr + n, 0x3C, post);
    }
    explicit Exact(size_t size) { alloc(size, g_pl.aout); if (n) memset(ptr, 0xA5, n); }
    explicit Exact(const Bytes &v) { alloc(v.size(), g_pl.ain); if (n) memcpy(ptr, v.data(), n); }
    Exact(const Exact &) = delete; Exact &operator=(const Exact &) = delete;
    bool guards_ok() const {
        for (size_t i = 0; i < pre; ++i) if (base[i] != 0xC3) return false;
        for (size_t i = 0; i < post; ++i) if (ptr[n + i] != 0x3C) return false;
        return true;
    }
    ~Exact() { if (!guards_ok()) g_guard_bad = true; free(base); }
    uint8_t *get() { return ptr; }
};

// runs f in a forked child (stdout/stderr of the library silenced); f may report text through the pipe.
// returns how the child ended: returned | assert (SIGABRT) | asan | ubsan | sig<n> | exit<n>
static std::string probe(const std::function<void(int)> &f, std::string &text) {
    std::cout << std::flush; fflush(stdout);
    int pfd[2]; if (pipe(pfd) != 0) return "no-pipe";
    pid_t pid = -1;
    for (int attempt = 0; attempt < 100 && pid < 0; ++attempt) {     // a loaded machine may refuse a fork transiently
        pid = fork();
        if (pid < 0) usleep(50000);
    }
    if (pid < 0) { close(pfd[0]); close(pfd[1]); return "no-fork"; }
    if (pid == 0) {
        close(pfd[0]);
        int dn = open("/dev/null", O_WRONLY); if (dn >= 0) { dup2(dn, 1); dup2(dn, 2); }
        f(pfd[1]);
        _exit(0);
    }
    close(pfd[1]);
    text.clear(); char buf[512]; ssize_t k;
    while ((k = read(pfd[0], buf, sizeof buf)) > 0) text.append(buf, (size_t)k);
    close(pfd[0]);
    int st = 0; waitpid(pid, &st, 0);
    if (WIFSIGNALED(st)) return WTERMSIG(st) == SIGABRT ? "assert" : "sig" + std::to_string(WTERMSIG(st));
    int ec = WEXITSTATUS(st);
    return ec == 0 ? "returned" : ec == 99 ? "asan" : ec == 98 ? "ubsan" : "exit" + std::to_string(ec);
}
static void say(int fd, const std::string &s) { ssize_t r = write(fd, s.data(), s.size()); (void)r; }
// the precondition-violating call must abort: prints `P <op> assert`, anything else is a difference
static std::string must_assert(const std::string &op, const std::function<void()> &f) {
    std::string t; std::string how = probe([&](int) { f(); }, t);
    return how == "assert" ? "P " + op + " assert" : "P " + op + " NO-ASSERT:" + how;
}

static std::string str_of(const Bytes &b) { return std::string(b.begin(), b.end()); }

struct State {
    // serializer
    std::unique_ptr<Exact> ser_buf; Bytes ser_vec; std::unique_ptr<util::Serializer> ser; bool ser_raw = false;
    // deserializer
    std::unique_ptr<Exact> des_buf; std::unique_ptr<util::Deserializer> des; const uint8_t *des_base = nullptr;
    void reset() { ser.reset(); ser_buf.reset(); ser_vec.clear(); des.reset(); des_buf.reset(); des_base = nullptr; }
};
static State g;

static bool endian_of(const std::string &w, util::Endian &e) {
    if (w == "b") { e = util::Endian::kBig; return true; }
    if (w == "l") { e = util::Endian::kLittle; return true; }
    return false;
}
static bool bool01(const std::string &w, bool &b) {
    if (w == "0") { b = false; return true; }
    if (w == "1") { b = true; return true; }
    return false;
}
static bool width_of(const std::string &w, int &n) {
    if (w == "1" || w == "2" || w == "4" || w == "8") { n = w[0] - '0'; return true; }
    return false;
}
static bool fits(uint64_t v, int bytes) { return bytes == 8 || v < (1ull << (8 * bytes)); }

static std::string ser_show(bool ret) {
    std::string mem = g.ser_raw ? vh::hex(g.ser_buf->get(), g.ser->pos()) : vh::hex(g.ser_vec);
    return "P ser ret=" + std::to_string(ret ? 1 : 0) + " pos=" + std::to_string(g.ser->pos()) + " mem=" + mem;
}
static std::string des_show(bool ret, const std::string &val) {
    return "P des ret=" + std::to_string(ret ? 1 : 0) + " val=" + (ret ? val : std::string("-")) + " pos=" + std::to_string(g.des->pos());
}

static std::string with_ref(bool has_ref, const std::string &ref, const std::string &value, const std::string &line) {
    if (!has_ref) return line;
    return line + (ref == value ? " ref=ok" : " ref=BAD");
}


// ------------------------------------------------------------------ round 9 (lesson h): long inputs in compact form
// `long <kind> <params…> <seg>+`, seg = rep:<hex pattern>:<n> (pattern repeated cyclically, n bytes) | prng:<seed>:<n>
// (x = 1664525·x + 1013904223 mod 2^32, byte = x >> 24). Long outputs are compared through their length and FNV-1a/64.
static uint64_t fnv64(const uint8_t *p, size_t n) {
    uint64_t h = 14695981039346656037ull;
    for (size_t i = 0; i < n; ++i) { h ^= p[i]; h *= 1099511628211ull; }
    return h;
}
static uint64_t fnv64(const std::string &t) { return fnv64((const uint8_t *)t.data(), t.size()); }
static bool canon_u64(const std::string &t, uint64_t &v) { return vh::to_u64(t, v) && std::to_string(v) == t; }
static bool parse_seg(const std::string &w, Bytes &data) {
    auto c1 = w.find(':'); if (c1 == std::string::npos) return false;
    auto c2 = w.find(':', c1 + 1); if (c2 == std::string::npos || w.find(':', c2 + 1) != std::string::npos) return false;
    std::string kind = w.substr(0, c1), mid = w.substr(c1 + 1, c2 - c1 - 1), cnt = w.substr(c2 + 1);
    uint64_t n = 0; if (!canon_u64(cnt, n) || n > (1u << 24) + 64 || data.size() + n > (1u << 24) + 64) return false;
    if (kind == "rep") {
        Bytes pat; if (!vh::unhex(mid, pat) || pat.empty()) return false;
        for (uint64_t i = 0; i < n; ++i) data.push_back(pat[i % pat.size()]);
        return true;
    }
    if (kind == "prng") {
        uint64_t sd = 0; if (!canon_u64(mid, sd) || sd >= (1ull << 32)) return false;
        uint32_t x = (uint32_t)sd;
        for (uint64_t i = 0; i < n; ++i) { x = x * 1664525u + 1013904223u; data.push_back((uint8_t)(x >> 24)); }
        return true;
    }
    return false;
}
static bool parse_cuts(const std::string &w, size_t total, std::vector<size_t> &cuts) {
    if (w == "-") return true;
    size_t from = 0, lo = 0;
    while (true) {
        auto c = w.find(',', from);
        std::string t = w.substr(from, c == std::string::npos ? std::string::npos : c - from);
        uint64_t v = 0; if (!canon_u64(t, v) || v < lo || v > total) return false;
        cuts.push_back((size_t)v); lo = (size_t)v;
        if (c == std::string::npos) return true;
        from = c + 1;
    }
}
static bool run_long(const std::vector<std::string> &w, bool has_ref, const std::string &ref, std::vector<std::string> &out) {
    if (w.size() < 3) return false;
    const std::string &kind = w[1];
    std::vector<std::string> params; Bytes data; bool in_segs = false;
    for (size_t i = 2; i < w.size(); ++i) {
        bool is_seg = w[i].find(':') != std::string::npos;
        if (is_seg) { in_segs = true; if (!parse_seg(w[i], data)) return false; }
        else { if (in_segs) return false; params.push_back(w[i]); }
    }
    if (!in_segs) return false;
    size_t n = data.size();
    bool small = n <= (1u << 20) + 64;
    std::string head = "M long.in len=" + std::to_string(n) + " fnv=" + std::to_string(fnv64(data.data(), n));
    uint64_t v = 0, c = 0; bool flag = false; util::Endian e;
    Exact in(data);
    if (kind == "sum8" && params.empty()) {
        out.push_back(head); out.push_back("P long.sum8 " + std::to_string(util::CalcCheckSum8(in.get(), n))); return true;
    }
    if (kind == "sum16" && params.empty()) {
        out.push_back(head); out.push_back("P long.sum16 " + std::to_string(util::CalcCheckSum16(in.get(), n))); return true;
    }
    if (kind == "crc16" && params.size() == 1 && vh::to_u64(params[0], v) && v < 65536) {
        out.push_back(head); out.push_back("P long.crc16 " + std::to_string(util::CalcCrc16(in.get(), n, (uint16_t)v))); return true;
    }
    if (kind == "crc32" && params.size() == 1 && vh::to_u64(params[0], v) && v < (1ull << 32)) {
        std::string r = std::to_string(util::CalcCrc32(in.get(), n, (uint32_t)v));
        out.push_back(head); out.push_back(with_ref(has_ref, ref, r, "P long.crc32 " + r)); return true;
    }
    if ((kind == "crc32.chain" || kind == "crc16.chain") && params.size() == 2 && vh::to_u64(params[0], v) && vh::to_u64(params[1], c)
        && v < (kind == "crc32.chain" ? (1ull << 32) : 65536ull) && c <= n) {
        Exact ia(Bytes(data.begin(), data.begin() + (long)c)), ib(Bytes(data.begin() + (long)c, data.end()));
        out.push_back(head);
        if (kind == "crc32.chain") {
            uint32_t W = util::CalcCrc32(in.get(), n, (uint32_t)v);
            uint32_t C = util::CalcCrc32(ib.get(), ib.n, ~util::CalcCrc32(ia.get(), ia.n, (uint32_t)v));
            out.push_back("P long.crc32.chain whole=" + std::to_string(W) + " chained=" + std::to_string(C));
        } else {
            uint16_t W = util::CalcCrc16(in.get(), n, (uint16_t)v);
            uint16_t C = util::CalcCrc16(ib.get(), ib.n, util::CalcCrc16(ia.get(), ia.n, (uint16_t)v));
            out.push_back("P long.crc16.chain whole=" + std::to_string(W) + " chained=" + std::to_string(C));
        }
        return true;
    }
    if (kind == "md5" && params.size() == 1) {
        std::vector<size_t> cuts; if (!parse_cuts(params[0], n, cuts)) return false;
        if (n > 140000 && !has_ref) return false;
        crypto::MD5 md5; size_t lo = 0;
        cuts.push_back(n);
        for (size_t cpos : cuts) { md5.update(in.get() + lo, cpos - lo); lo = cpos; }
        Exact dig(16); md5.finish(dig.get());
        std::string r = vh::hex(dig.get(), 16);
        out.push_back(head); out.push_back(with_ref(has_ref, ref, r, "P long.md5 " + r)); return true;
    }
    if (kind == "b64" && params.empty() && small && n > 0) {
        std::string t = util::base64::Encode(in.get(), n);
        Exact text(Bytes(t.begin(), t.end())), o(n), o2(n - 1);
        size_t dl = util::base64::DecodeLength((const char *)text.get(), text.n);
        size_t r = util::base64::Decode((const char *)text.get(), text.n, o.get(), n);
        Bytes ov; size_t r2 = util::base64::Decode(t, ov);
        bool same = r == n && memcmp(o.get(), data.data(), n) == 0 && r2 == n && ov == data && t.size() == util::base64::EncodeLength(n);
        size_t rs = util::base64::Decode((const char *)text.get(), text.n, o2.get(), n - 1);
        out.push_back(head);
        out.push_back("P long.b64 enclen=" + std::to_string(t.size()) + " encfnv=" + std::to_string(fnv64(t)) + " declen=" + std::to_string(dl)
                      + " dec=" + std::to_string(r) + " same=" + (same ? "1" : "0") + " short=" + std::to_string(rs));
        return true;
    }
    if (kind == "b64bad" && params.size() == 1 && small && n > 0 && vh::to_u64(params[0], v) && v < (4 * n + 2) / 3) {
        std::string t = util::base64::Encode(in.get(), n);
        t[(size_t)v] = '*';
        Exact text(Bytes(t.begin(), t.end())), o(n);
        size_t r = util::base64::Decode((const char *)text.get(), text.n, o.get(), n);
        Bytes ov; size_t r2 = util::base64::Decode(t, ov);
        out.push_back(head); out.push_back("P long.b64bad ret=" + std::to_string(r) + " vec=" + std::to_string(r2)); return true;
    }
    if (kind == "hexdec" && params.empty() && small) {
        std::string t = n ? vh::hex(data.data(), n) : std::string();
        Bytes o; std::string exc = "-";
        try {
            size_t r = util::string::HexStrToRawData(t, o, "");
            if (r != o.size()) exc = "RET-NOT-SIZE";
        } catch (const util::string::NotAZaz09Exception &) { exc = "NotAZaz09";
        } catch (const util::string::MoreThan2CharException &) { exc = "MoreThan2Char";
        } catch (const std::out_of_range &) { exc = "out_of_range"; }
        out.push_back(head);
        out.push_back("P long.hexdec exc=" + exc + " len=" + std::to_string(o.size()) + " fnv=" + std::to_string(fnv64(o.data(), o.size())));
        if (n > 0 && n <= 65535) {
            Exact ob(n);
            size_t r = util::string::HexStrToRawData(t, ob.get(), (uint16_t)n);
            out.push_back("P long.hexdec buf ret=" + std::to_string(r) + " same=" + ((r == n && memcmp(ob.get(), data.data(), n) == 0) ? "1" : "0"));
        }
        return true;
    }
    if (kind == "hexenc" && params.size() == 1 && bool01(params[0], flag) && n <= 65535) {
        std::string t = util::string::RawDataToHexStr(in.get(), (uint16_t)n, flag, "");
        out.push_back(head); out.push_back("P long.hexenc len=" + std::to_string(t.size()) + " fnv=" + std::to_string(fnv64(t))); return true;
    }
    if (kind == "url" && params.size() == 1 && bool01(params[0], flag) && small) {
        std::string src = str_of(data);
        std::string enc = http::UrlEncode(src, flag);
        bool same = false;
        try { same = http::UrlDecode(enc) == src; } catch (const std::out_of_range &) { same = false; }
        out.push_back(head);
        out.push_back("P long.url enclen=" + std::to_string(enc.size()) + " encfnv=" + std::to_string(fnv64(enc)) + " same=" + (same ? "1" : "0"));
        return true;
    }
    if (kind == "ser" && params.size() == 1 && endian_of(params[0], e) && small) {
        Bytes block;
        util::Serializer s(block, e);
        bool r1 = s.append(in.get(), n);
        bool r2 = s.append((uint32_t)0x01020304);
        Exact blk(block), o(n);
        util::Deserializer d(blk.get(), blk.n, e);
        bool back = d.fetch(o.get(), n) && memcmp(o.get(), data.data(), n) == 0;
        uint32_t x = 0; d.fetch(x);
        out.push_back(head);
        out.push_back(std::string("P long.ser ret=") + (r1 ? "1" : "0") + (r2 ? "1" : "0") + " pos=" + std::to_string(s.pos()) + " fnv="
                      + std::to_string(fnv64(block.data(), block.size())) + " back=" + (back ? "1" : "0") + " int=" + std::to_string(x)
                      + " dpos=" + std::to_string(d.pos()));
        return true;
    }
    if (kind == "serraw" && params.size() == 2 && endian_of(params[0], e) && small && vh::to_u64(params[1], v) && v <= 8) {
        Exact buf(n + (size_t)v);
        util::Serializer s(buf.get(), buf.n, e);
        bool r1 = s.append(in.get(), n);
        bool r2 = s.append((uint32_t)0x01020304);
        bool r3 = s.append(in.get(), n);
        out.push_back(head);
        out.push_back(std::string("P long.serraw ret=") + (r1 ? "1" : "0") + (r2 ? "1" : "0") + (r3 ? "1" : "0") + " pos=" + std::to_string(s.pos())
                      + " fnv=" + std::to_string(fnv64(buf.get(), s.pos() <= buf.n ? s.pos() : 0)));
        return true;
    }
    return false;
}

// returns false for bad-op; appends output lines to out
static bool run(std::vector<std::string> w, std::vector<std::string> &out) {
    bool has_ref = false; std::string ref;
    g_pl = Place();
    if (!w.empty() && w.back().size() == 4 && w.back()[0] == '@') {
        const std::string &t = w.back();
        if ((t[1] != 'R' && t[1] != 'L') || t[2] < '0' || t[2] > '7' || t[3] < '0' || t[3] > '7') return false;
        g_pl.mode = t[1]; g_pl.ain = (unsigned)(t[2] - '0'); g_pl.aout = (unsigned)(t[3] - '0');
        w.pop_back();
    }
    if (!w.empty() && w.back().compare(0, 4, "ref=") == 0) { has_ref = true; ref = w.back().substr(4); w.pop_back(); }
    if (w.empty()) return false;
    const std::string &op = w[0];
    if (op == "long") return run_long(w, has_ref, ref, out);
    Bytes a, b; uint64_t n = 0, v = 0; bool flag = false; util::Endian e; int width = 0;

    // ------------------------------------------------------------------ Base64
    if (op == "b64.enc" && w.size() == 2 && vh::unhex(w[1], a)) {
        if (a.empty()) {
            Exact in(a);
            out.push_back(must_assert("b64.enc", [&] { util::base64::Encode(in.get(), 0); }));
            return true;
        }
        Exact in(a);
        std::string s1 = util::base64::Encode(in.get(), in.n);
        std::string s2 = util::base64::Encode(a);
        if (s1 != s2) { out.push_back("P b64.enc OVERLOADS-DIFFER"); return true; }
        out.push_back(with_ref(has_ref, ref, vh::hex(s1), "P b64.enc " + vh::hex(s1)));
        return true;
    }
    if (op == "b64.encbuf" && w.size() == 3 && vh::unhex(w[1], a) && vh::to_u64(w[2], n) && n < (1u << 24)) {
        if (a.empty() || n == 0) {
            Exact in(a), o(n);
            out.push_back(must_assert("b64.encbuf", [&] { util::base64::Encode(in.get(), in.n, (char *)o.get(), n); }));
            return true;
        }
        Exact in(a), o(n);
        size_t r = util::base64::Encode(in.get(), in.n, (char *)o.get(), n);
        out.push_back("P b64.encbuf ret=" + std::to_string(r) + " out=" + vh::hex(o.get(), r <= n ? r : 0));
        return true;
    }
    if (op == "b64.declen" && w.size() == 2 && vh::unhex(w[1], a)) {
        Exact in(a);
        size_t r1 = util::base64::DecodeLength((const char *)in.get(), in.n);
        size_t r2 = util::base64::DecodeLength(str_of(a));
        if (r1 != r2) { out.push_back("P b64.declen OVERLOADS-DIFFER"); return true; }
        out.push_back("P b64.declen " + std::to_string(r1));
        return true;
    }
    if (op == "b64.dec" && w.size() == 3 && vh::unhex(w[1], a) && vh::to_u64(w[2], n) && n < (1u << 24)) {
        Exact in(a), o(n);
        size_t r = util::base64::Decode((const char *)in.get(), in.n, o.get(), n);
        out.push_back("P b64.dec ret=" + std::to_string(r) + " out=" + vh::hex(o.get(), r <= n ? r : 0));
        return true;
    }
    if (op == "b64.decvec" && w.size() == 2 && vh::unhex(w[1], a)) {
        Bytes o;
        size_t r = util::base64::Decode(str_of(a), o);
        out.push_back("P b64.decvec ret=" + std::to_string(r) + " out=" + vh::hex(o));
        return true;
    }
    // C-string overloads: the text is everything before the first NUL of a buffer that ends in exactly one NUL
    if ((op == "b64.decz" && w.size() == 3 && vh::unhex(w[1], a) && vh::to_u64(w[2], n) && n < (1u << 24))
        || (op == "b64.declenz" && w.size() == 2 && vh::unhex(w[1], a))) {
        Bytes z = a; z.push_back(0);
        Exact in(z);
        if (op == "b64.declenz") {
            out.push_back("P b64.declenz " + std::to_string(util::base64::DecodeLength((const char *)in.get())));
            return true;
        }
        Exact o(n);
        size_t r = util::base64::Decode((const char *)in.get(), o.get(), n);
        out.push_back("P b64.decz ret=" + std::to_string(r) + " out=" + vh::hex(o.get(), r <= n ? r : 0));
        return true;
    }
    // Decode(string, vector&) on a vector that already holds data: the decoded bytes are appended
    if (op == "b64.decapp" && w.size() == 3 && vh::unhex(w[1], a) && vh::unhex(w[2], b)) {
        Bytes o = b;
        size_t r = util::base64::Decode(str_of(a), o);
        out.push_back("P b64.decapp ret=" + std::to_string(r) + " out=" + vh::hex(o));
        return true;
    }
    if (op == "b64.rt" && w.size() == 2 && vh::unhex(w[1], a)) {
        if (a.empty()) {
            out.push_back(must_assert("b64.rt", [&] { util::base64::Encode(a); }));   // Encode(vector) -> Encode(data(), 0)
            return true;
        }
        Exact in(a);
        std::string s = util::base64::Encode(in.get(), in.n);
        Exact enc(Bytes(s.begin(), s.end())), o(a.size());
        size_t dl = util::base64::DecodeLength((const char *)enc.get(), enc.n);
        size_t r = util::base64::Decode((const char *)enc.get(), enc.n, o.get(), o.n);
        Bytes ov; size_t r2 = util::base64::Decode(s, ov);
        Exact oz(a.size());
        size_t r3 = util::base64::Decode(s.c_str(), oz.get(), oz.n);
        bool goodz = r3 == a.size() && memcmp(oz.get(), a.data(), a.size()) == 0 && util::base64::DecodeLength(s.c_str()) == a.size();
        bool good = goodz && s.size() == util::base64::EncodeLength(a.size()) && dl == a.size() && r == a.size()
                    && memcmp(o.get(), a.data(), a.size()) == 0 && r2 == a.size() && ov == a;
        out.push_back(good ? "P b64.rt ok" : "P b64.rt FAIL enc=" + vh::hex(s) + " ret=" + std::to_string(r));
        return true;
    }
    // ------------------------------------------------------------------ scalable integer
    if (op == "si.dump" && w.size() == 3 && vh::to_u64(w[1], v) && std::to_string(v) == w[1] && vh::to_u64(w[2], n) && n < 4096) {
        Exact o(n);
        size_t r = util::DumpScalableInteger(v, o.get(), n);
        out.push_back("P si.dump ret=" + std::to_string(r) + " out=" + vh::hex(o.get(), r <= n ? r : 0));
        return true;
    }
    if (op == "si.parse" && w.size() == 2 && vh::unhex(w[1], a)) {
        Exact in(a);
        uint64_t val = 0;
        size_t r = util::ParseScalableInteger(in.get(), in.n, val);
        out.push_back("P si.parse ret=" + std::to_string(r) + " val=" + (r ? std::to_string(val) : std::string("-")));
        return true;
    }
    if (op == "si.rt" && w.size() == 2 && vh::to_u64(w[1], v) && std::to_string(v) == w[1]) {
        Exact o(10);
        size_t r = util::DumpScalableInteger(v, o.get(), 10);
        Exact in(Bytes(o.get(), o.get() + (r <= 10 ? r : 0)));
        uint64_t val = ~v;
        size_t r2 = util::ParseScalableInteger(in.get(), in.n, val);
        out.push_back((r > 0 && r2 == r && val == v) ? "P si.rt ok len=" + std::to_string(r)
                      : "P si.rt FAIL ret=" + std::to_string(r) + " parsed=" + std::to_string(r2) + " val=" + std::to_string(val));
        return true;
    }
    // ------------------------------------------------------------------ hex strings
    if (op == "hex.enc" && w.size() == 4 && vh::unhex(w[1], a) && bool01(w[2], flag) && vh::unhex(w[3], b) && a.size() < 65536) {
        Exact in(a);
        std::string s = util::string::RawDataToHexStr(in.get(), (uint16_t)in.n, flag, str_of(b));
        out.push_back("P hex.enc " + vh::hex(s));
        return true;
    }
    if (op == "hex.decbuf" && w.size() == 3 && vh::unhex(w[1], a) && vh::to_u64(w[2], n) && n < 65536) {
        Exact o(n);
        try {
            size_t r = util::string::HexStrToRawData(str_of(a), o.get(), (uint16_t)n);
            out.push_back("P hex.decbuf ret=" + std::to_string(r) + " out=" + vh::hex(o.get(), r <= n ? r : 0));
        } catch (const util::string::NotAZaz09Exception &) { out.push_back("P hex.decbuf exc=NotAZaz09");
        } catch (const util::string::MoreThan2CharException &) { out.push_back("P hex.decbuf exc=MoreThan2Char");
        } catch (const std::out_of_range &) { out.push_back("P hex.decbuf exc=out_of_range"); }
        return true;
    }
    if (op == "hex.decvec" && w.size() == 3 && vh::unhex(w[1], a) && vh::unhex(w[2], b)) {
        Bytes o; std::string exc = "-";
        try {
            size_t r = util::string::HexStrToRawData(str_of(a), o, str_of(b));
            if (r != o.size()) exc = "RET-NOT-SIZE";
        } catch (const util::string::NotAZaz09Exception &) { exc = "NotAZaz09";
        } catch (const util::string::MoreThan2CharException &) { exc = "MoreThan2Char";
        } catch (const std::out_of_range &) { exc = "out_of_range"; }
        out.push_back("P hex.decvec exc=" + exc + " out=" + vh::hex(o));
        return true;
    }
    if (op == "hex.rt" && w.size() == 4 && vh::unhex(w[1], a) && bool01(w[2], flag) && vh::unhex(w[3], b) && a.size() < 65536) {
        Exact in(a);
        std::string s = util::string::RawDataToHexStr(in.get(), (uint16_t)in.n, flag, str_of(b));
        Bytes o; std::string exc = "-"; bool good = false;
        try {
            util::string::HexStrToRawData(s, o, str_of(b));
            good = (o == a);
            if (good && !a.empty() && b.empty()) {
                Exact ob(a.size());
                size_t r = util::string::HexStrToRawData(s, ob.get(), (uint16_t)a.size());
                good = r == a.size() && memcmp(ob.get(), a.data(), a.size()) == 0;
            }
        } catch (const util::string::NotAZaz09Exception &) { exc = "NotAZaz09";
        } catch (const util::string::MoreThan2CharException &) { exc = "MoreThan2Char";
        } catch (const std::out_of_range &) { exc = "out_of_range"; }
        out.push_back(good ? "P hex.rt ok" : "P hex.rt FAIL exc=" + exc);
        return true;
    }
    // ------------------------------------------------------------------ serializer
    if (op == "ser.raw" && w.size() == 3 && vh::to_u64(w[1], n) && n < (1u << 20) && endian_of(w[2], e)) {
        g.ser.reset(); g.ser_buf.reset(new Exact(n)); g.ser_raw = true;
        g.ser.reset(new util::Serializer(g.ser_buf->get(), n, e));
        out.push_back("P ser new"); return true;
    }
    if (op == "ser.vec" && w.size() == 3 && vh::unhex(w[1], a) && endian_of(w[2], e)) {
        g.ser.reset(); g.ser_vec = a; g.ser_raw = false;
        g.ser.reset(new util::Serializer(g.ser_vec, e));
        out.push_back("P ser new"); return true;
    }
    if (op == "ser.int" && w.size() == 3 && g.ser && width_of(w[1], width) && vh::to_u64(w[2], v) && std::to_string(v) == w[2] && fits(v, width)) {
        bool r = width == 1 ? g.ser->append((uint8_t)v) : width == 2 ? g.ser->append((uint16_t)v)
               : width == 4 ? g.ser->append((uint32_t)v) : g.ser->append((uint64_t)v);
        out.push_back(ser_show(r)); return true;
    }
    if (op == "ser.bytes" && w.size() == 2 && g.ser && vh::unhex(w[1], a)) {
        Exact in(a);
        out.push_back(ser_show(g.ser->append(in.get(), in.n))); return true;
    }
    if (op == "ser.pod" && w.size() == 2 && g.ser && vh::unhex(w[1], a)) {
        Exact in(a);
        out.push_back(ser_show(g.ser->appendPOD(in.get(), in.n))); return true;
    }
    if (op == "ser.endian" && w.size() == 2 && g.ser && endian_of(w[1], e)) {
        g.ser->setEndian(e); out.push_back("P ser endian"); return true;
    }
    if (op == "des.new" && w.size() == 3 && vh::unhex(w[1], a) && endian_of(w[2], e)) {
        g.des.reset(); g.des_buf.reset(new Exact(a));
        g.des.reset(new util::Deserializer(g.des_buf->get(), a.size(), e));
        g.des_base = g.des_buf->get();
        out.push_back("P des new"); return true;
    }
    if (op == "des.int" && w.size() == 2 && g.des && width_of(w[1], width)) {
        bool r; uint64_t val = 0;
        if (width == 1) { uint8_t x = 0; r = g.des->fetch(x); val = x; }
        else if (width == 2) { uint16_t x = 0; r = g.des->fetch(x); val = x; }
        else if (width == 4) { uint32_t x = 0; r = g.des->fetch(x); val = x; }
        else { uint64_t x = 0; r = g.des->fetch(x); val = x; }
        out.push_back(des_show(r, std::to_string(val))); return true;
    }
    // sizes above 4096 are passed with an EMPTY output block: the call must fail its bounds check without touching it
    if ((op == "des.bytes" || op == "des.pod") && w.size() == 2 && g.des && vh::to_u64(w[1], n) && std::to_string(n) == w[1]
        && (n <= 4096 || n > g.des->size())) {
        if (n > 4096) {
            Exact o((size_t)0);
            bool r = op == "des.bytes" ? g.des->fetch(o.get(), n) : g.des->fetchPOD(o.get(), n);
            out.push_back(des_show(r, "HUGE")); return true;
        }
        Exact o(n);
        bool r = op == "des.bytes" ? g.des->fetch(o.get(), n) : g.des->fetchPOD(o.get(), n);
        out.push_back(des_show(r, vh::hex(o.get(), n))); return true;
    }
    if (op == "des.nocopy" && w.size() == 2 && g.des && vh::to_u64(w[1], n) && std::to_string(n) == w[1]
        && (n <= 4096 || n > g.des->size())) {
        const void *p = g.des->fetchNoCopy(n);
        if (p && p != g.des->ptr() - n) { out.push_back("P des NOCOPY-POINTER-NOT-IN-INPUT"); return true; }
        out.push_back(des_show(p != nullptr, p ? vh::hex((const uint8_t *)p, n) : std::string("-"))); return true;
    }
    if (op == "des.skip" && w.size() == 2 && g.des && vh::to_u64(w[1], n) && std::to_string(n) == w[1]) {
        out.push_back(des_show(g.des->skip(n), "-"));
        if (out.back().find("ret=1") != std::string::npos) out.back() = "P des ret=1 val=- pos=" + std::to_string(g.des->pos());
        return true;
    }
    if (op == "des.setpos" && w.size() == 2 && g.des && vh::to_u64(w[1], n) && std::to_string(n) == w[1]) {
        bool r = g.des->set_pos(n);
        out.push_back(std::string("P des ret=") + (r ? "1" : "0") + " val=- pos=" + std::to_string(g.des->pos())); return true;
    }
    // checkSize(n) and the accessors start() / size() / ptr()
    if (op == "des.check" && w.size() == 2 && g.des && vh::to_u64(w[1], n) && std::to_string(n) == w[1]) {
        bool r = g.des->checkSize(n);
        bool acc = g.des->start() == g.des_base && g.des->ptr() == g.des->start() + g.des->pos();
        out.push_back(std::string("P des check=") + (r ? "1" : "0") + " pos=" + std::to_string(g.des->pos()) + " size="
                      + std::to_string(g.des->size()) + (acc ? "" : " ACCESSORS-WRONG"));
        return true;
    }
    // append(p, n) with a size the fixed buffer cannot hold (up to SIZE_MAX): must refuse and store nothing
    if (op == "ser.big" && w.size() == 2 && g.ser && g.ser_raw && vh::to_u64(w[1], n) && std::to_string(n) == w[1] && n > g.ser_buf->n) {
        Exact in((size_t)0);
        out.push_back(ser_show(g.ser->append(in.get(), n))); return true;
    }
    if (op == "des.endian" && w.size() == 2 && g.des && endian_of(w[1], e)) {
        g.des->setEndian(e); out.push_back("P des endian"); return true;
    }
    if (op == "ser.rt" && w.size() >= 2 && endian_of(w[1], e)) {
        struct F { char kind; int width; uint64_t v; Bytes bs; util::Endian e; };
        std::vector<F> fs;
        for (size_t i = 2; i < w.size(); ++i) {
            auto c = w[i].find(':');
            if (c == std::string::npos) return false;
            std::string k = w[i].substr(0, c), val = w[i].substr(c + 1);
            F f{};
            if (k == "i1" || k == "i2" || k == "i4" || k == "i8") {
                f.kind = 'i'; f.width = k[1] - '0';
                if (!vh::to_u64(val, f.v) || std::to_string(f.v) != val || !fits(f.v, f.width)) return false;
            } else if (k == "s1" || k == "s2" || k == "s4" || k == "s8") {
                f.kind = 's'; f.width = k[1] - '0'; int64_t sv; uint64_t mag;
                bool neg = !val.empty() && val[0] == '-';
                if (!vh::to_u64(neg ? val.substr(1) : val, mag) || val.size() > 20 || mag > (1ull << 63) || (!neg && mag == (1ull << 63))) return false;
                sv = (int64_t)(neg ? 0 - mag : mag);
                if (std::to_string(sv) != val) return false;
                if (f.width < 8 && (sv < -(1ll << (8 * f.width - 1)) || sv >= (1ll << (8 * f.width - 1)))) return false;
                f.v = (uint64_t)sv;
            } else if (k == "f4" || k == "f8") {
                f.kind = 'f'; f.width = k[1] - '0';
                if (!vh::unhex(val, f.bs) || (int)f.bs.size() != f.width) return false;
            } else if (k == "r" || k == "p") { f.kind = k[0]; if (!vh::unhex(val, f.bs)) return false; }
            else if (k == "e") { f.kind = 'e'; if (!endian_of(val, f.e)) return false; }
            else return false;
            fs.push_back(f);
        }
        Bytes block;
        util::Serializer s(block, e);
        for (auto &f : fs) {
            if (f.kind == 'i') {
                if (f.width == 1) s << (uint8_t)f.v; else if (f.width == 2) s << (uint16_t)f.v;
                else if (f.width == 4) s << (uint32_t)f.v; else s << (uint64_t)f.v;
            } else if (f.kind == 's') {
                int64_t sv = (int64_t)f.v;
                if (f.width == 1) s << (int8_t)sv; else if (f.width == 2) s << (int16_t)sv;
                else if (f.width == 4) s << (int32_t)sv; else s << (int64_t)sv;
            } else if (f.kind == 'f') {     // the bit pattern is the value (NaNs included): memcpy in and out
                if (f.width == 4) { float x; memcpy(&x, f.bs.data(), 4); s << x; } else { double x; memcpy(&x, f.bs.data(), 8); s << x; }
            } else if (f.kind == 'r') { Exact in(f.bs); s.append(in.get(), in.n); }
            else if (f.kind == 'p') { Exact in(f.bs); s.appendPOD(in.get(), in.n); }
            else s << f.e;
        }
        Exact data(block);
        util::Deserializer d(data.get(), data.n, e);
        bool good = s.pos() == block.size();
        for (auto &f : fs) {
            if (f.kind == 'i') {
                uint64_t got = 0;
                if (f.width == 1) { uint8_t x = 0; d >> x; got = x; } else if (f.width == 2) { uint16_t x = 0; d >> x; got = x; }
                else if (f.width == 4) { uint32_t x = 0; d >> x; got = x; } else { uint64_t x = 0; d >> x; got = x; }
                good = good && got == f.v;
            } else if (f.kind == 's') {
                int64_t got = 0;
                if (f.width == 1) { int8_t x = 0; d >> x; got = x; } else if (f.width == 2) { int16_t x = 0; d >> x; got = x; }
                else if (f.width == 4) { int32_t x = 0; d >> x; got = x; } else { int64_t x = 0; d >> x; got = x; }
                good = good && got == (int64_t)f.v;
            } else if (f.kind == 'f') {
                uint8_t back[8] = {0};
                if (f.width == 4) { float x = 0; d >> x; memcpy(back, &x, 4); } else { double x = 0; d >> x; memcpy(back, &x, 8); }
                good = good && memcmp(back, f.bs.data(), (size_t)f.width) == 0;
            } else if (f.kind == 'r' || f.kind == 'p') {
                Exact o(f.bs.size());
                bool r = f.kind == 'r' ? d.fetch(o.get(), o.n) : d.fetchPOD(o.get(), o.n);
                good = good && r && memcmp(o.get(), f.bs.data(), o.n) == 0;
            } else d >> f.e;
        }
        good = good && d.pos() == block.size();
        out.push_back(good ? "P ser.rt ok bytes=" + vh::hex(block) : "P ser.rt FAIL bytes=" + vh::hex(block));
        return true;
    }
    // ------------------------------------------------------------------ round 8: histories on ONE object, inputs derived from its state
    // a Deserializer over what the Serializer has produced so far. Fixed buffer: over the SAME memory (the serializer may go on
    // appending behind the view); vector: over a copy (the vector may move when it grows)
    if (op == "ser.view" && w.size() == 2 && g.ser && endian_of(w[1], e)) {
        g.des.reset();
        if (g.ser_raw) {
            g.des_buf.reset(); g.des_base = g.ser_buf->get();
        } else {
            g.des_buf.reset(new Exact(Bytes(g.ser_vec.begin(), g.ser_vec.begin() + (long)std::min(g.ser->pos(), g.ser_vec.size()))));
            g.des_base = g.des_buf->get();
        }
        g.des.reset(new util::Deserializer(g.des_base, g.ser->pos(), e));
        out.push_back("P des new"); return true;
    }
    // AES(k0 or nullptr), then any number of setKey (k:) / cipher (e:) / invcipher (d:) calls on that one object
    if (op == "aes.hist" && w.size() >= 3 && vh::unhex(w[1], a) && (a.size() == 16 || a.empty())) {
        struct St { char kind; Bytes v; };
        std::vector<St> steps;
        for (size_t i = 2; i < w.size(); ++i) {
            St st{};
            if (w[i].size() < 3 || w[i][1] != ':' || std::string("kedKED").find(w[i][0]) == std::string::npos) return false;
            st.kind = w[i][0];
            if (!vh::unhex(w[i].substr(2), st.v) || st.v.size() != 16) return false;
            steps.push_back(st);
        }
        // lower case = object A, upper case = object B (AES(nullptr)); an object must have a key before it is used
        bool keyedA = !a.empty(), keyedB = false;
        for (auto &st : steps) {
            bool onB = st.kind < 'a'; bool &keyed = onB ? keyedB : keyedA;
            if (st.kind == 'k' || st.kind == 'K') keyed = true; else if (!keyed) return false;
        }
        Exact k0(a);
        crypto::AES aes(a.empty() ? nullptr : k0.get());
        crypto::AES aesB(nullptr);
        std::string line = "P aes.hist";
        bool any = false;
        for (auto &st : steps) {
            Exact in(st.v);
            crypto::AES &obj = st.kind < 'a' ? aesB : aes;
            char kind = (char)(st.kind | 0x20);
            if (kind == 'k') { obj.setKey(in.get()); continue; }
            Exact o(16);
            if (kind == 'e') obj.cipher(in.get(), o.get()); else obj.invcipher(in.get(), o.get());
            line += " " + vh::hex(o.get(), 16); any = true;
        }
        out.push_back(any ? line : line + " -");
        return true;
    }
    // r1 = Crc(d1, seed); r2 = Crc(d2, link(r1)); ...   link: p = previous result, n = its complement, z = 0, f = all ones
    if ((op == "crc32.seq" || op == "crc16.seq") && w.size() >= 3 && w.size() % 2 == 1 && vh::to_u64(w[1], v)
        && v < (op == "crc32.seq" ? (1ull << 32) : 65536ull) && vh::unhex(w[2], a)) {
        bool is32 = op == "crc32.seq";
        std::vector<std::pair<char, Bytes>> rest;
        Bytes whole = a;
        for (size_t i = 3; i + 1 < w.size(); i += 2) {
            if (w[i].size() != 1 || std::string("pnzf").find(w[i][0]) == std::string::npos) return false;
            Bytes d; if (!vh::unhex(w[i + 1], d)) return false;
            rest.push_back({w[i][0], d}); whole.insert(whole.end(), d.begin(), d.end());
        }
        std::string line = "P " + op;
        uint64_t mask = is32 ? 0xffffffffull : 0xffffull;
        auto calc = [&](const Bytes &d, uint64_t seed) -> uint64_t {
            Exact in(d);
            return is32 ? (uint64_t)util::CalcCrc32(in.get(), in.n, (uint32_t)seed) : (uint64_t)util::CalcCrc16(in.get(), in.n, (uint16_t)seed);
        };
        uint64_t r = calc(a, v);
        line += " " + std::to_string(r);
        for (auto &st : rest) {
            uint64_t seed = st.first == 'p' ? r : st.first == 'n' ? (~r & mask) : st.first == 'z' ? 0 : mask;
            r = calc(st.second, seed);
            line += " " + std::to_string(r);
        }
        line += " whole=" + std::to_string(calc(whole, v));
        out.push_back(line);
        return true;
    }
    // several scalable integers in ONE buffer: d:<v>:<off> = Dump(v, buf + off, size - off), p:<off> = Parse(buf + off, size - off)
    if (op == "si.buf" && w.size() >= 3 && vh::unhex(w[1], a) && a.size() <= 4096) {
        struct St { bool dump; uint64_t v; uint64_t off; };
        std::vector<St> steps;
        for (size_t i = 2; i < w.size(); ++i) {
            St st{};
            auto parts = std::vector<std::string>();
            size_t from = 0;
            while (true) { auto c = w[i].find(':', from); if (c == std::string::npos) { parts.push_back(w[i].substr(from)); break; } parts.push_back(w[i].substr(from, c - from)); from = c + 1; }
            if (parts.size() == 3 && parts[0] == "d" && vh::to_u64(parts[1], st.v) && std::to_string(st.v) == parts[1]
                && vh::to_u64(parts[2], st.off) && std::to_string(st.off) == parts[2]) st.dump = true;
            else if (parts.size() == 2 && parts[0] == "p" && vh::to_u64(parts[1], st.off) && std::to_string(st.off) == parts[1]) st.dump = false;
            else return false;
            if (st.off > a.size()) return false;
            steps.push_back(st);
        }
        Exact buf(a);
        std::string line = "P si.buf";
        for (auto &st : steps) {
            if (st.dump) {
                size_t r = util::DumpScalableInteger(st.v, buf.get() + st.off, buf.n - st.off);
                line += " d=" + std::to_string(r);
            } else {
                uint64_t val = 0;
                size_t r = util::ParseScalableInteger(buf.get() + st.off, buf.n - st.off, val);
                line += " p=" + std::to_string(r) + "/" + (r ? std::to_string(val) : std::string("-"));
            }
        }
        out.push_back(line);
        out.push_back("M si.buf buf=" + vh::hex(buf.get(), buf.n));      // bytes outside the encodings: within the capacity given
        return true;
    }
    // two MD5 objects used in turns, in this process (a step on a finished object is not driven here: bad-op)
    if (op == "md5.two" && w.size() >= 2) {
        struct St { bool onB; bool fin; Bytes data; };
        std::vector<St> steps;
        bool finA = false, finB = false;
        for (size_t i = 1; i < w.size(); ++i) {
            St st{};
            if (w[i] == "fa" || w[i] == "fb") { st.onB = w[i][1] == 'b'; st.fin = true; }
            else if (w[i].compare(0, 2, "a:") == 0 || w[i].compare(0, 2, "b:") == 0) { st.onB = w[i][0] == 'b'; if (!vh::unhex(w[i].substr(2), st.data)) return false; }
            else return false;
            bool &fin = st.onB ? finB : finA;
            if (fin) return false;
            if (st.fin) fin = true;
            steps.push_back(st);
        }
        crypto::MD5 ma, mb;
        std::string line = "P md5.two"; bool any = false;
        for (auto &st : steps) {
            crypto::MD5 &m = st.onB ? mb : ma;
            if (st.fin) { Exact dig(16); m.finish(dig.get()); line += std::string(st.onB ? " b=" : " a=") + vh::hex(dig.get(), 16); any = true; }
            else { Exact in(st.data); m.update(in.get(), in.n); }
        }
        out.push_back(any ? line : line + " -");
        return true;
    }
    // round 10: Base64 decode with text and output in ONE heap block of exactly |pre|+|text|+|post| bytes, output at offset dst
    if (op == "b64.decip" && w.size() == 6 && vh::unhex(w[1], a) && vh::unhex(w[2], b)) {
        Bytes post; uint64_t dst = 0, cap = 0;
        if (vh::unhex(w[3], post) && vh::to_u64(w[4], dst) && vh::to_u64(w[5], cap) && std::to_string(dst) == w[4] && std::to_string(cap) == w[5]) {
            Bytes mem = a; mem.insert(mem.end(), b.begin(), b.end()); mem.insert(mem.end(), post.begin(), post.end());
            if (mem.size() < (1u << 16) && dst + cap <= mem.size() && dst <= a.size()) {     // output behind the start of the text: outside the contract
                Exact m(mem);
                size_t r = util::base64::Decode((const char *)m.get() + a.size(), b.size(), m.get() + dst, cap);
                out.push_back("P b64.decip ret=" + std::to_string(r) + " out=" + vh::hex(m.get() + dst, r <= cap ? r : 0));
                out.push_back("M b64.decip mem=" + vh::hex(m.get(), m.n));
                return true;
            }
        }
    }
    // serializer self-append: the source is the serializer's own storage at offset off (inside the written data).
    // r = 1: the caller reserves pos + k first; r = 0: capacity = size. A call that must reallocate reads its source from the
    // freed block: run in a child, the way it ends is an M line (outside the contract, see C19_ser_self_append_dangles)
    if (op == "ser.self" && w.size() == 4 && g.ser && vh::to_u64(w[1], v) && vh::to_u64(w[2], n) && std::to_string(v) == w[1]
        && std::to_string(n) == w[2] && n < (1u << 16) && (w[3] == "0" || w[3] == "1") && v + n <= g.ser->pos()
        && (g.ser_raw || g.ser->pos() <= g.ser_vec.size())) {
        size_t off = (size_t)v, k = (size_t)n, pos = g.ser->pos();
        if (g.ser_raw) { out.push_back(ser_show(g.ser->append(g.ser_buf->get() + off, k))); return true; }
        if (w[3] == "1") g.ser_vec.reserve(pos + k);
        else {
            g.ser_vec.shrink_to_fit();                                                          // non-binding: make capacity = size for sure
            if (g.ser_vec.capacity() != g.ser_vec.size()) { Bytes t(g.ser_vec); g.ser_vec.swap(t); }
        }
        if (g.ser_vec.capacity() >= pos + k) {
            out.push_back(ser_show(g.ser->append(g.ser_vec.data() + off, k))); return true;
        }
        std::string t; std::string how = probe([&](int) { g.ser->append(g.ser_vec.data() + off, k); }, t);
        out.push_back("M ser.self dangling=" + how);
        return true;
    }
    // Base64: decode t1, then t2, into the SAME buffer (never re-initialised in between)
    if (op == "b64.dec2" && w.size() == 4 && vh::unhex(w[1], a) && vh::unhex(w[2], b) && vh::to_u64(w[3], n) && n < (1u << 24)) {
        Exact in1(a), in2(b), o(n);
        size_t r1 = util::base64::Decode((const char *)in1.get(), in1.n, o.get(), n);
        std::string o1 = vh::hex(o.get(), r1 <= n ? r1 : 0);
        size_t r2 = util::base64::Decode((const char *)in2.get(), in2.n, o.get(), n);
        out.push_back("P b64.dec2 ret=" + std::to_string(r1) + " out=" + o1 + " ret=" + std::to_string(r2) + " out=" + vh::hex(o.get(), r2 <= n ? r2 : 0));
        if (r1 > 0 && r2 > 0 && r2 <= n) out.push_back("M b64.dec2 rest=" + vh::hex(o.get() + r2, n - r2));
        return true;
    }
    // ------------------------------------------------------------------ CRC / checksums
    if (op == "crc16" && w.size() == 3 && vh::unhex(w[1], a) && vh::to_u64(w[2], v) && v < 65536) {
        Exact in(a);
        out.push_back("P crc16 " + std::to_string(util::CalcCrc16(in.get(), in.n, (uint16_t)v))); return true;
    }
    if (op == "crc32" && w.size() == 3 && vh::unhex(w[1], a) && vh::to_u64(w[2], v) && v < (1ull << 32)) {
        Exact in(a);
        std::string r = std::to_string(util::CalcCrc32(in.get(), in.n, (uint32_t)v));
        out.push_back(with_ref(has_ref, ref, r, "P crc32 " + r)); return true;
    }
    // chained calls: the CRC of a ++ b from the CRC of a. CalcCrc16 returns the register itself, CalcCrc32 its complement,
    // so the seed of the second call is crc16(a) resp. ~crc32(a) (C19_crc_chain)
    if ((op == "crc32.chain" || op == "crc16.chain") && w.size() == 4 && vh::unhex(w[1], a) && vh::unhex(w[2], b)
        && vh::to_u64(w[3], v) && v < (op == "crc32.chain" ? (1ull << 32) : 65536ull)) {
        Bytes ab = a; ab.insert(ab.end(), b.begin(), b.end());
        Exact whole(ab), ia(a), ib(b);
        if (op == "crc32.chain") {
            uint32_t W = util::CalcCrc32(whole.get(), whole.n, (uint32_t)v);
            uint32_t C = util::CalcCrc32(ib.get(), ib.n, ~util::CalcCrc32(ia.get(), ia.n, (uint32_t)v));
            uint32_t N = util::CalcCrc32(ib.get(), ib.n, util::CalcCrc32(ia.get(), ia.n, (uint32_t)v));
            out.push_back("P crc32.chain whole=" + std::to_string(W) + " chained=" + std::to_string(C) + " naive=" + std::to_string(N));
        } else {
            uint16_t W = util::CalcCrc16(whole.get(), whole.n, (uint16_t)v);
            uint16_t C = util::CalcCrc16(ib.get(), ib.n, util::CalcCrc16(ia.get(), ia.n, (uint16_t)v));
            out.push_back("P crc16.chain whole=" + std::to_string(W) + " chained=" + std::to_string(C));
        }
        return true;
    }
    if (op == "sum8" && w.size() == 2 && vh::unhex(w[1], a)) {
        Exact in(a);
        out.push_back("P sum8 " + std::to_string(util::CalcCheckSum8(in.get(), in.n))); return true;
    }
    if (op == "sum16" && w.size() == 2 && vh::unhex(w[1], a)) {
        Exact in(a);
        out.push_back("P sum16 " + std::to_string(util::CalcCheckSum16(in.get(), in.n))); return true;
    }
    // ------------------------------------------------------------------ URL
    if (op == "url.enc" && w.size() == 3 && vh::unhex(w[1], a) && bool01(w[2], flag)) {
        std::string r = vh::hex(http::UrlEncode(str_of(a), flag));
        out.push_back(with_ref(has_ref, ref, r, "P url.enc " + r)); return true;
    }
    if (op == "url.dec" && w.size() == 2 && vh::unhex(w[1], a)) {
        try { out.push_back("P url.dec " + vh::hex(http::UrlDecode(str_of(a)))); }
        catch (const std::out_of_range &) { out.push_back("P url.dec exc=out_of_range"); }
        return true;
    }
    if (op == "url.rt" && w.size() == 3 && vh::unhex(w[1], a) && bool01(w[2], flag)) {
        try {
            std::string enc = http::UrlEncode(str_of(a), flag);
            std::string back = http::UrlDecode(enc);
            out.push_back(back == str_of(a) ? "P url.rt ok" : "P url.rt FAIL enc=" + vh::hex(enc));
        } catch (const std::out_of_range &) { out.push_back("P url.rt FAIL exc=out_of_range"); }
        return true;
    }
    // StringToUrlHost (user:password@host:port; the port goes through std::stoi and is narrowed to uint16_t) and back
    if (op == "url.host" && w.size() == 2 && vh::unhex(w[1], a)) {
        http::Url::Host h;
        bool r = false; std::string how = "-";
        try { r = http::StringToUrlHost(str_of(a), h); } catch (const std::exception &) { how = "exception-escaped"; }
        out.push_back(std::string("P url.host ret=") + (r ? "1" : "0") + " user=" + vh::hex(h.user) + " pw=" + vh::hex(h.password) + " host="
                      + vh::hex(h.host) + " port=" + std::to_string(h.port) + " str=" + vh::hex(http::UrlHostToString(h))
                      + (how == "-" ? "" : " " + how));
        return true;
    }
    // two parses into the SAME Url::Host object
    if (op == "url.host2" && w.size() == 3 && vh::unhex(w[1], a) && vh::unhex(w[2], b)) {
        http::Url::Host h;
        std::string line = "P url.host2";
        for (int k = 0; k < 2; ++k) {
            bool r = false; std::string how;
            try { r = http::StringToUrlHost(str_of(k ? b : a), h); } catch (const std::exception &) { how = " exception-escaped"; }
            line += std::string(k ? " | " : " ") + "ret=" + (r ? "1" : "0") + " user=" + vh::hex(h.user) + " pw=" + vh::hex(h.password) + " host="
                    + vh::hex(h.host) + " port=" + std::to_string(h.port) + how;
        }
        out.push_back(line);
        return true;
    }
    if (op == "url.mkhost" && w.size() == 5 && vh::unhex(w[1], a) && vh::unhex(w[2], b) && vh::to_u64(w[4], n) && n < 65536) {
        Bytes c; if (!vh::unhex(w[3], c)) return false;
        http::Url::Host h; h.user = str_of(a); h.password = str_of(b); h.host = str_of(c); h.port = (uint16_t)n;
        std::string t = http::UrlHostToString(h);
        http::Url::Host k; bool r = false;
        try { r = http::StringToUrlHost(t, k); } catch (const std::exception &) { r = false; }
        bool same = r && k.user == h.user && k.password == h.password && k.host == h.host && k.port == h.port;
        out.push_back("P url.mkhost str=" + vh::hex(t) + " rt=" + (same ? "1" : "0"));
        return true;
    }
    // ------------------------------------------------------------------ MD5
    // life cycle: `u:<hex>` = update, `f` = finish; runs in a forked child because update / finish on a finished object abort
    if (op == "md5.seq" && w.size() >= 2) {
        struct Step { bool fin; Bytes data; };
        std::vector<Step> steps;
        for (size_t i = 1; i < w.size(); ++i) {
            if (w[i] == "f") steps.push_back({true, {}});
            else if (w[i].compare(0, 2, "u:") == 0) { Step st{false, {}}; if (!vh::unhex(w[i].substr(2), st.data)) return false; steps.push_back(st); }
            else return false;
        }
        std::string text;
        std::string how = probe([&](int fd) {
            crypto::MD5 md5;
            for (auto &st : steps) {
                if (st.fin) { Exact dig(16); md5.finish(dig.get()); say(fd, " " + vh::hex(dig.get(), 16)); }
                else { Exact in(st.data); md5.update(in.get(), in.n); say(fd, " u"); }
            }
        }, text);
        out.push_back("P md5.seq" + text + " end=" + how);
        return true;
    }
    if (op == "md5") {
        std::vector<Bytes> ps(w.size() - 1);
        for (size_t i = 1; i < w.size(); ++i) if (!vh::unhex(w[i], ps[i - 1])) return false;
        crypto::MD5 md5;
        for (auto &p : ps) { Exact in(p); md5.update(in.get(), in.n); }
        Exact dig(16);
        md5.finish(dig.get());
        std::string r = vh::hex(dig.get(), 16);
        out.push_back(with_ref(has_ref, ref, r, "P md5 " + r)); return true;
    }
    // one update of 2^k zero bytes, fed in `pieces` equal pieces (heap block of exactly that size). The expected digest
    // comes from the op line (python hashlib): the Lean driver cannot evaluate half a gigabyte through its list model.
    if (op == "md5.big" && w.size() == 3 && has_ref && vh::to_u64(w[1], n) && n >= 6 && n <= 30 && vh::to_u64(w[2], v)
        && (v == 1 || v == 2 || v == 4)) {
        size_t total = (size_t)1 << n, piece = total / v;
        uint8_t *p = (uint8_t *)calloc(total, 1);
        if (!p) { out.push_back("P md5.big no-memory"); return true; }
        crypto::MD5 md5;
        for (uint64_t i = 0; i < v; ++i) md5.update(p + i * piece, piece);
        Exact dig(16);
        md5.finish(dig.get());
        free(p);
        std::string r = vh::hex(dig.get(), 16);
        out.push_back(with_ref(has_ref, ref, r, "P md5.big " + r)); return true;
    }
    // ------------------------------------------------------------------ AES
    if ((op == "aes.enc" || op == "aes.dec" || op == "aes.rt") && w.size() == 3 && vh::unhex(w[1], a) && vh::unhex(w[2], b)
        && a.size() == 16 && b.size() == 16) {
        Exact key(a), in(b), o(16), o2(16);
        crypto::AES aes(key.get());
        if (op == "aes.enc") { aes.cipher(in.get(), o.get()); std::string r = vh::hex(o.get(), 16); out.push_back(with_ref(has_ref, ref, r, "P aes.enc " + r)); }
        else if (op == "aes.dec") { aes.invcipher(in.get(), o.get()); std::string r = vh::hex(o.get(), 16); out.push_back(with_ref(has_ref, ref, r, "P aes.dec " + r)); }
        else {
            aes.cipher(in.get(), o.get()); aes.invcipher(o.get(), o2.get());
            out.push_back(memcmp(o2.get(), b.data(), 16) == 0 ? "P aes.rt ok" : "P aes.rt FAIL got=" + vh::hex(o2.get(), 16));
        }
        return true;
    }
    // AES(nullptr) used before any setKey: round keys are whatever the memory holds; only invcipher(cipher(b)) == b is observable
    if (op == "aes.unkeyed" && w.size() == 2 && vh::unhex(w[1], a) && a.size() == 16) {
        crypto::AES aes(nullptr);
        Exact in(a), o(16), o2(16);
        aes.cipher(in.get(), o.get()); aes.invcipher(o.get(), o2.get());
        out.push_back(std::string("P aes.unkeyed rt=") + (memcmp(o2.get(), a.data(), 16) == 0 ? "1" : "0"));
        return true;
    }
    // AES(k1 or nullptr) ; setKey(k2) ; cipher / invcipher of each block with the same object, in place
    if (op == "aes.seq" && w.size() >= 4 && vh::unhex(w[1], a) && (a.size() == 16 || a.empty()) && vh::unhex(w[2], b) && (b.size() == 16 || b.empty())
        && !(a.empty() && b.empty())) {
        std::vector<Bytes> blks(w.size() - 3);
        for (size_t i = 3; i < w.size(); ++i) if (!vh::unhex(w[i], blks[i - 3]) || blks[i - 3].size() != 16) return false;
        Exact k1(a), k2(b);
        crypto::AES aes(a.empty() ? nullptr : k1.get());
        if (!b.empty()) aes.setKey(k2.get());
        std::string line = "P aes.seq";
        for (auto &blk : blks) {
            Exact io(blk);
            aes.cipher(io.get(), io.get());
            line += " " + vh::hex(io.get(), 16);
            aes.invcipher(io.get(), io.get());
            line += memcmp(io.get(), blk.data(), 16) == 0 ? "+" : "!";
        }
        out.push_back(line);
        return true;
    }
    return false;
}

int main() {
    std::string line;
    while (std::getline(std::cin, line)) {
        auto w = vh::words(line);
        if (w.empty()) continue;
        if (w[0] == "case") { g.reset(); std::cout << line << "\n" << std::flush; continue; }
        std::vector<std::string> out;
        bool ok = false;
        g_guard_bad = false;
        ok = run(w, out);
        g_pl = Place();
        if (!ok) { std::cout << "bad-op\n"; continue; }
        if ((g.ser_buf && !g.ser_buf->guards_ok()) || (g.des_buf && !g.des_buf->guards_ok())) g_guard_bad = true;
        if (g_guard_bad) out.push_back("P GUARD-OVERWRITTEN");
        for (auto &l : out) std::cout << l << "\n";
        std::cout << std::flush;
    }
    return 0;
}
