"""C19 — codecs are exact bounded inverses; checksums, MD5, AES match the standards."""
import base64 as _b64, hashlib, os, sys, urllib.parse, zlib
sys.path.insert(0, os.path.dirname(os.path.abspath(__file__)))
import extract as _extract
import refimpl as _ref
import vlib

ID = 'C19'
LEAN_MODULES = ['TboxModel.C19.Props']
EXE = 'c19'
THEOREMS = []          # filled from theorems.txt below (one fully qualified name per line)
_thm = os.path.join(os.path.dirname(os.path.abspath(__file__)), 'theorems.txt')
if os.path.exists(_thm):
    THEOREMS = [l.strip() for l in open(_thm) if l.strip() and not l.startswith('#')]

SOURCES = ['modules/util/base64.cpp', 'modules/util/string.cpp', 'modules/util/scalable_integer.cpp',
           'modules/util/serializer.cpp', 'modules/http/url.cpp', 'modules/util/crc.cpp', 'modules/util/checksum.cpp',
           'modules/crypto/md5.cpp', 'modules/crypto/aes.cpp'] + vlib.BASE_SOURCES
FLAVOUR = 'asan'
BATCH = 300
SHRINK_TESTS = 40
MAX_REPORT = 8


def pre_lean(repo, lean):
    _extract.pre_lean(repo, lean)


TRUSTED = [
    'models lean/TboxModel/C19/{Base64,SInt,Hex,Ser,Crc,Url,Md5,Aes}.lean are hand-written transcriptions of the nine anchored '
    'sources; tables (Base64, CRC, scalable-integer min/max, AES S-boxes/Rcon, MD5 step lines/init/padding, URL character sets) '
    'are regenerated from the source text by props/C19/extract.py on every run into Gen.lean',
    'reference definitions in lean/TboxModel/C19/Spec.lean (bitwise CRC from the polynomial, GF(2^8) S-box, RFC 1321 schedule '
    'with T[i] from sin, RFC 4648 alphabet) are my transcription of the standards; python zlib/hashlib/base64/urllib are a second, '
    'supporting reference carried in the op lines (ref=…)',
    'props/C19/refimpl.py: pure-Python AES-128 key schedule / cipher and MD5 internals written from the standards, used by the generator to derive inputs '
    'from the state an object caches (round keys, chaining state, buffer contents); expected values still come from Spec.lean',
    'out-of-bounds accesses are explicit `oob` outcomes of the models; on the implementation they are observed by ASan (heap '
    'blocks of exactly the advertised size) and UBSan (-fsanitize=bounds on the constant tables)',
]
ASSUMPTIONS = ['Serializer/Deserializer: buffer sizes below 2^64; the size_t comparison need <= size - pos is modelled (Ser.checkSizeW) and proved equal '
               'to pos + need <= size under the invariant pos <= size (C19_des_checksize_exact); need sizes up to SIZE_MAX are driven through the real code',
               'url.cpp keeps one string position in an int (url.cpp:208-217): strings of 2^31 bytes are out of reach, positions are naturals in the model',
               'MD5 life cycle: the abort of update/finish on a finished object is the TBOX_ASSERT of debug builds (NDEBUG undefined, as the harness and the '
               'repository default build it); the release-build behaviour is theorem-only (C19_md5_finish_twice_release)',
               'RawDataToHexStr length < 65536 (its uint16_t length parameter)',
               'std::isprint in the "C" locale; glibc answers 0 for negative char values',
               'MD5: one update call is shorter than 2^61 bytes (plain_text_len << 3 in a 64-bit size_t); the >= 512 MiB single-update '
               'case fixed by C19-05 is in the corpus (expected digest from python hashlib: the list model cannot evaluate 2^29 bytes); '
               'Gen.md5CarryWide records which carry comparison is in the source and theorem carry_is_narrow requires the repaired one',
               'AES(nullptr) before the first setKey: the round keys are uninitialised memory, the ciphertext is unspecified and outside the quantifier (no key); '
               'decided round 9: never in a P line; only invcipher(cipher(b)) == b is observed (aes.unkeyed), which holds for every content of w (C19_aes_unkeyed_roundtrip); '
               'aes.hist / aes.seq do not use an unkeyed object; '
               'long inputs (round 9): checksums, CRCs up to 2^24 bytes through Array evaluators proved equal to the list models; MD5 through the model up to 140000 bytes, '
               'beyond that the expected digest is python hashlib (second reference) and independence of the cuts is C19_md5_split; Base64 / hex / URL decoders on long input '
               'are answered by the round-trip and rejection theorems (closed forms), the encoders by the models (Base64 chunk-wise, proved equal), up to 2^20 bytes; '
               'bytes of an output buffer behind the returned count (b64.dec2 rest=, si.buf buf=) are M-class: inside the capacity given, not promised by the API',
               'Base64 in place: the output pointer is at or before the start of the text (behind it the call overwrites characters it has not read: outside the contract, '
               'counterexample theorem, bad-op in the tie); serializer self-append: the caller reserved pos + k first in vector mode (otherwise the source range dies inside '
               'vector::resize — the rule of vector::insert with iterators into the vector itself; decided outside the statement, observed as an M line only)',
               'AES: key and block are exactly 16 bytes (the model reads missing bytes as 0, the real code would read out of bounds)']
RULE = ('one case = 1..12 codec operations from props/C19/plugin.py gen(): encode/decode/round-trip ops on byte strings of '
        'length 0..70 (all 256 byte values), capacities exact/one-short/zero/roomy, 64-bit values around every length boundary '
        '±2, serializer field sequences, MD5 update splits, AES key/block pairs, plus a malformed stream; non-trivial = the case '
        'contains at least one decoder/parse op on invalid or boundary input, an exact-capacity buffer op, or a multi-piece MD5 / '
        'multi-field serializer op (tags in the B lines); distinct = distinct op text. Round 7: memory-placement family (every pointer-taking '
        'entry point at alignments 0..7, right-aligned against the ASan redzone and left-aligned after a canary, lengths 0..5,7..9,15..17,63..65, '
        'suffix @<R|L><in><out>; a third of the random cases carry a random placement), width families (ports around 2^16 / 2^31 / 2^32 / 2^63 / '
        '2^64, signed texts; (de)serializer sizes around 2^31 / 2^32 / 2^63 / 2^64; signed and floating stream operators), law families '
        '(chained CRC, MD5 update/finish scripts run in a forked child so that the abort is observed, AES re-keying, Base64 C-string overloads). '
        'Round 8: state-derived histories on ONE object (lesson g): aes.hist (AES(k0|nullptr) then any setKey/cipher/invcipher calls, a second object in turns; '
        'next key = previous key, its transpose = memory image of w[0], its reverse, each of the 11 round keys in memory and FIPS order, one-byte neighbours, '
        'previous input/output block), md5 / md5.two (pieces = chaining state bytes, pending buffer, padding + length block, after 55/56/63/64 buffered bytes; two '
        'objects in turns), crc32.seq / crc16.seq (seed = previous result / its complement / 0 / all ones, data = bytes of the previous result), si.buf '
        '(dump and parse at offsets of one buffer), b64.dec2 (decode into the buffer holding the previous output), ser.view (deserializer over the '
        'serializer\'s own output, append after fetch, set_pos to the current / previous / end position), url.host2 (two parses into the same Url::Host object). '
        'Round 9 (lesson h): long inputs in compact form `long <codec> … rep:<pattern>:<n> | prng:<seed>:<n>` of 2^16±2, 131070..131080, 2^18, 2^20, 2^24 bytes '
        '(all ff, ff00, 00ff, fffe, 80, pseudo-random) through checksum8/16, crc16/32 (also chained), MD5 (one update and cuts around 2^16 / 2^20), and 2^16±1, 2^17±1, '
        '131075, 2^20 bytes through Base64 enc/dec (incl. one bad character), hex enc/dec, URL enc/dec, serializer vector / fixed-buffer raw blocks; in BOTH tiers. '
        'Round 10 (aliased buffers): b64.decip = Base64 Decode with text and output in ONE exactly sized heap block (in place and output 1..3 bytes before the text; '
        'every length class, pads, invalid / high / NUL / pad characters at every position of a quad, exact / short / roomy capacity), ser.self = Serializer::append '
        'with the source inside the serializer\'s own written data (fixed buffer; vector reserved / exactly fitting / k = 0; the unreserved growing call runs in a child '
        'process and only its AddressSanitizer end is recorded, as an M line)')
LEVEL_TEXT = ('Lean 4 theorems over hand-written models of the nine codec sources, all for every input: round trips (Base64 both '
              'decoders, scalable integer for every 64-bit value and capacity, hex strings all three readers, serializer for every '
              'field sequence, URL both modes, AES-128 invcipher∘cipher), advertised sizes, no out-of-bounds outcome for every input '
              'and capacity, rejection of every non-alphabet Base64 character, and equality with independently written definitions '
              'of the published algorithms: Base64 encoder = RFC 4648, table-driven CRC-16/32 = bitwise CRC, checksums = '
              'one\'s-complement sums, MD5 (any split into updates) = RFC 1321 (Spec.md5), AES-128 cipher and inverse cipher = '
              'FIPS-197 (Spec.aesCipher / aesInvCipher), for every HISTORY of setKey / cipher / invcipher calls on one object (under the last key; also two objects '
              'in turns), the memcmp(w[0], key) skip shortcut refuted and the right-order one proved sound; CRC call sequences with derived seeds; scalable integers '
              'self-delimiting inside a used buffer; two MD5 objects in turns; Base64 decode into a used buffer; URL host print/parse round trip; chained CRC law (and the counterexample to the naive one), '
              'MD5 object life cycle for every history and exactness of its 64-bit bit counter, signed stream operators, size_t bounds check = '
              'mathematical one, Base64 C-string overloads, URL port: accepted range, modulo-65536 narrowing as coded, print/parse round trip; '
              'accumulator widths (round 9): CalcCheckSum16 with its uint32_t / CalcCheckSum8 with its uint16_t accumulator = the one\'s-complement sums for every length, '
              'the fold-once variants exact up to 131074 / 257 bytes and refuted at 131075 / 258 bytes of 0xFF, Array evaluators for 16 MiB inputs = the list models, '
              'Base64 encoder chunk-wise = encoder, unkeyed AES object: invcipher∘cipher = id for every content of w; '
              'aliased buffers (round 10): Base64 decode over ONE shared memory with the output at or before the text = decode into a separate buffer, for every memory '
              'content / text / capacity, nothing outside the output window changes for ANY placement, an output pointer behind the text start refuted; serializer self-append '
              '= append of a copy whenever the storage stays in place (fixed buffer, or capacity covers pos + k), otherwise the source is read after vector::resize freed it; '
              'tables regenerated from the source on every run; tied to the code on every '
              'run by differential execution under ASan+UBSan')
LEVEL_NOTE = ('trusted: Lean kernel, hand-written models + differential tie (coverage bounded by the generator, measured in '
              'evidence), my transcription of the standards in Spec.lean (checked against the RFC/FIPS test vectors and python '
              'hashlib/zlib/base64 on every run)')
TECHNIQUE = 'Lean 4 proofs over executable codec models + regenerated tables + model/implementation correspondence check'
DESIGN_REF = 'DESIGN.md §6 C19, §7 row 11'

# ------------------------------------------------------------------------------------------ generator

def hx(b):
    return bytes(b).hex() or '-'


def rbytes(rng, n, lo=0, hi=256):
    return bytes(rng.randrange(lo, hi) for _ in range(n))


SI_TABLE_MAX = [0x7F, 0x407F, 0x20407F, 0x1020407F, 0x081020407F, 0x04081020407F, 0x0204081020407F, 0x010204081020407F,
                0x810204081020407F]


def si_values(rng):
    vals = [0, 1, 2, (1 << 64) - 1, (1 << 64) - 2, (1 << 63), (1 << 63) - 1, (1 << 32), (1 << 32) - 1]
    for m in SI_TABLE_MAX:
        for d in (-2, -1, 0, 1, 2, 3):
            if 0 <= m + d < (1 << 64): vals.append(m + d)
    return vals


B64CHARS = b'ABCDEFGHIJKLMNOPQRSTUVWXYZabcdefghijklmnopqrstuvwxyz0123456789+/'


def gen_b64(rng, ops):
    n = rng.choice([1, 2, 3, 4, 5, 6, 7, 8, 15, 16, 17, 30, 47, 48, 49, 64, 70]) if rng.random() < 0.7 else rng.randrange(1, 71)
    x = rbytes(rng, n)
    e = _b64.b64encode(x)
    r = rng.random()
    if r < 0.15:
        ops.append('b64.enc %s ref=%s' % (hx(x), hx(e)))
    elif r < 0.25:
        el = (n + 2) // 3 * 4
        ops.append('b64.encbuf %s %d' % (hx(x), rng.choice([el, el - 1, el + 1, 1, el + 7])))
    elif r < 0.35:
        ops.append('b64.rt %s' % hx(x))
    elif r < 0.60:
        # valid input, capacities exact / one short / zero / roomy
        ops.append('b64.dec %s %d' % (hx(e), rng.choice([n, n, n, max(n - 1, 0), 0, n + 1, n + 5])))
    elif r < 0.68:
        ops.append('b64.decvec %s' % hx(e))
        ops.append('b64.declen %s' % hx(e))
    else:
        # mutated input: every byte value at a random position, inner padding, truncation
        s = bytearray(e)
        k = rng.random()
        if k < 0.35:
            s[rng.randrange(len(s))] = rng.randrange(256)
        elif k < 0.5:
            s[rng.randrange(len(s))] = rng.randrange(128, 256)
        elif k < 0.65:
            s[rng.randrange(len(s))] = ord('=')
        elif k < 0.8:
            s = s[:rng.randrange(len(s) + 1)]
        else:
            s = bytearray(rng.choice(B64CHARS + b'=') for _ in range(rng.choice([4, 8, 12])))
        dl = 0
        if len(s) and len(s) % 4 == 0:
            dl = len(s) // 4 * 3 - (1 if s[-1:] == b'=' else 0) - (1 if s[-2:-1] == b'=' else 0)
        ops.append('b64.dec %s %d' % (hx(s), rng.choice([dl, dl, max(dl - 1, 0), dl + 3, 0])))
        if rng.random() < 0.5:
            ops.append('b64.decvec %s' % hx(s))
        if rng.random() < 0.3:
            ops.append('b64.declen %s' % hx(s))


def gen_si(rng, ops, vals):
    r = rng.random()
    if r < 0.3:
        v = rng.choice(vals) if rng.random() < 0.6 else rng.getrandbits(rng.choice([7, 14, 21, 28, 35, 42, 49, 56, 63, 64]))
        ops.append('si.rt %d' % v)
    elif r < 0.55:
        v = rng.choice(vals) if rng.random() < 0.6 else rng.getrandbits(rng.choice([8, 16, 33, 57, 64]))
        need = 1
        while need < 10 and v > SI_TABLE_MAX[need - 1]: need += 1
        ops.append('si.dump %d %d' % (v, rng.choice([need, need - 1, 0, 10, need + 1])))
    else:
        # arbitrary byte strings: k continuation bytes then maybe a terminator
        k = rng.choice([0, 1, 2, 5, 8, 9, 10, 11, 12, 13]) if rng.random() < 0.8 else rng.randrange(0, 14)
        s = bytes(rng.randrange(128, 256) for _ in range(k))
        if rng.random() < 0.75: s += bytes([rng.randrange(0, 128)])
        if rng.random() < 0.3: s += rbytes(rng, rng.randrange(0, 4))
        if rng.random() < 0.15: s = bytes([0xff] * k) + (b'\x7f' if rng.random() < 0.7 else b'')
        ops.append('si.parse %s' % hx(s))


def gen_hex(rng, ops):
    n = rng.choice([0, 1, 2, 3, 8, 33]) if rng.random() < 0.6 else rng.randrange(0, 50)
    x = rbytes(rng, n)
    delim = rng.choice([b'', b'', b' ', b':', b': ', b', ', b' \t'])
    up = rng.choice([0, 1])
    r = rng.random()
    if r < 0.15:
        ops.append('hex.enc %s %d %s' % (hx(x), up, hx(delim)))
    elif r < 0.35:
        ops.append('hex.rt %s %d %s' % (hx(x), up, hx(delim)))
    else:
        # a (possibly damaged) hex string
        s = bytearray((delim.decode().join('%02x' % b for b in x)).encode())
        if up: s = bytearray(bytes(s).upper())
        k = rng.random()
        if len(s) and k < 0.3:
            s[rng.randrange(len(s))] = rng.randrange(256)
        elif len(s) and k < 0.45:
            s = s[:rng.randrange(len(s))]
        elif k < 0.55:
            s = bytearray(b' ' * rng.randrange(3)) + s + bytearray(b'\t' * rng.randrange(3))
        elif k < 0.62:
            s = s + bytearray(b'abc')
        if r < 0.65:
            cap = rng.choice([n, n, max(n - 1, 0), 0, n + 1, n + 3])
            ops.append('hex.decbuf %s %d' % (hx(s), cap))
        else:
            ops.append('hex.decvec %s %s' % (hx(s), hx(delim)))


def gen_field(rng):
    k = rng.random()
    if k < 0.5:
        w = rng.choice([1, 2, 4, 8])
        v = rng.choice([0, 1, (1 << (8 * w)) - 1, 1 << (8 * w - 1), rng.getrandbits(8 * w)])
        return 'i%d:%d' % (w, v)
    if k < 0.7:
        return 'r:%s' % hx(rbytes(rng, rng.randrange(0, 9)))
    if k < 0.8:
        return 'p:%s' % hx(rbytes(rng, rng.choice([1, 2, 4, 8, 3])))
    if k < 0.88:
        w = rng.choice([1, 2, 4, 8]); half = 1 << (8 * w - 1)
        return 's%d:%d' % (w, rng.choice([-half, -1, half - 1, rng.randrange(-half, half)]))
    if k < 0.93:
        w = rng.choice([4, 8])
        return 'f%d:%s' % (w, hx(rbytes(rng, w)))
    return 'e:%s' % rng.choice('bl')


def gen_ser(rng, ops):
    r = rng.random()
    if r < 0.35:
        ops.append('ser.rt %s %s' % (rng.choice('bl'), ' '.join(gen_field(rng) for _ in range(rng.randrange(0, 9)))))
        return
    if r < 0.7:
        if rng.random() < 0.6:
            cap = rng.choice([0, 1, 2, 3, 7, 8, 9, 15, 16, 20])
            ops.append('ser.raw %d %s' % (cap, rng.choice('bl')))
        else:
            ops.append('ser.vec %s %s' % (hx(rbytes(rng, rng.choice([0, 0, 3, 12]))), rng.choice('bl')))
        for _ in range(rng.randrange(1, 8)):
            k = rng.random()
            if k < 0.55:
                w = rng.choice([1, 2, 4, 8])
                ops.append('ser.int %d %d' % (w, rng.choice([(1 << (8 * w)) - 1, rng.getrandbits(8 * w), 0x0102030405060708 & ((1 << (8 * w)) - 1)])))
            elif k < 0.75:
                ops.append('ser.bytes %s' % hx(rbytes(rng, rng.randrange(0, 6))))
            elif k < 0.9:
                ops.append('ser.pod %s' % hx(rbytes(rng, rng.choice([1, 2, 4, 8]))))
            else:
                ops.append('ser.endian %s' % rng.choice('bl'))
        return
    n = rng.choice([0, 1, 2, 3, 4, 7, 8, 9, 16, 20])
    ops.append('des.new %s %s' % (hx(rbytes(rng, n)), rng.choice('bl')))
    for _ in range(rng.randrange(1, 9)):
        k = rng.random()
        if k < 0.5: ops.append('des.int %d' % rng.choice([1, 2, 4, 8]))
        elif k < 0.6: ops.append('des.bytes %d' % rng.randrange(0, 6))
        elif k < 0.7: ops.append('des.pod %d' % rng.choice([1, 2, 4, 8, 3]))
        elif k < 0.78: ops.append('des.nocopy %d' % rng.randrange(0, 6))
        elif k < 0.82: ops.append('des.skip %d' % rng.choice([0, 1, 2, n, n + 1, 2 ** 64 - 1, 2 ** 64 - n, 2 ** 63]))
        elif k < 0.86: ops.append('des.check %d' % rng.choice([0, 1, n, n + 1, 2 ** 64 - 1, 2 ** 63]))
        elif k < 0.94: ops.append('des.setpos %d' % rng.choice([0, 1, max(n - 1, 0), n, n + 1]))
        else: ops.append('des.endian %s' % rng.choice('bl'))


def gen_crc(rng, ops):
    n = rng.choice([0, 1, 2, 3, 4, 9, 64, 255, 256]) if rng.random() < 0.5 else rng.randrange(0, 80)
    x = rbytes(rng, n)
    if rng.random() < 0.15: x = bytes([rng.choice([0, 0xff])] * n)
    r = rng.random()
    if r < 0.3:
        seed = rng.choice([0xffffffff, 0, rng.getrandbits(32)])
        if seed == 0xffffffff:
            ops.append('crc32 %s %d ref=%d' % (hx(x), seed, zlib.crc32(x) & 0xffffffff))
        else:
            ops.append('crc32 %s %d' % (hx(x), seed))
    elif r < 0.6:
        ops.append('crc16 %s %d' % (hx(x), rng.choice([0xffff, 0, rng.getrandbits(16)])))
    elif r < 0.8:
        ops.append('sum8 %s' % hx(x))
    else:
        ops.append('sum16 %s' % hx(x))


def gen_url(rng, ops):
    n = rng.randrange(0, 30)
    k = rng.random()
    if k < 0.4: x = rbytes(rng, n)
    elif k < 0.8: x = rbytes(rng, n, 32, 127)
    else: x = bytes(rng.choice(b' +&=<>"#,%{}|\\^[]`;?:@$/.aZ09~-_') for _ in range(n))
    r = rng.random()
    if r < 0.25:
        pm = rng.choice([0, 1])
        ops.append('url.enc %s %d' % (hx(x), pm))
    elif r < 0.5:
        ops.append('url.rt %s %d' % (hx(x), rng.choice([0, 1])))
    else:
        # decoder on arbitrary input: valid escapes, truncated escapes, bad digits
        s = bytearray(urllib.parse.quote_from_bytes(x, safe='').encode()) if rng.random() < 0.6 else bytearray(x)
        kk = rng.random()
        if len(s) and kk < 0.3: s[rng.randrange(len(s))] = rng.choice(b'%%%gG zx') if rng.random() < 0.7 else rng.randrange(256)
        elif len(s) and kk < 0.5: s = s[:rng.randrange(len(s) + 1)]
        elif kk < 0.6: s += b'%'
        elif kk < 0.7: s += b'%4'
        ops.append('url.dec %s' % hx(s))


def gen_md5(rng, ops):
    total = rng.choice([0, 1, 55, 56, 57, 63, 64, 65, 119, 120, 127, 128, 129, 200]) if rng.random() < 0.7 else rng.randrange(0, 300)
    x = rbytes(rng, total)
    pieces, i = [], 0
    np_ = rng.choice([1, 1, 2, 3, 5, 8])
    cuts = sorted(rng.randrange(total + 1) for _ in range(np_ - 1))
    prev = 0
    for c in cuts + [total]:
        pieces.append(x[prev:c]); prev = c
    if rng.random() < 0.3: pieces.insert(rng.randrange(len(pieces) + 1), b'')
    ops.append('md5 %s ref=%s' % (' '.join(hx(p) for p in pieces), hashlib.md5(x).hexdigest()))


def gen_aes(rng, ops):
    key = rbytes(rng, 16) if rng.random() < 0.8 else bytes([rng.choice([0, 0xff])] * 16)
    blk = rbytes(rng, 16) if rng.random() < 0.8 else bytes([rng.choice([0, 0xff])] * 16)
    ops.append('%s %s %s' % (rng.choice(['aes.enc', 'aes.dec', 'aes.rt']), hx(key), hx(blk)))



def gen_hist(rng, ops):
    """random histories on one object; a third of the follow-up inputs are derived from the cached state"""
    r = rng.random()
    if r < 0.5:
        k = rbytes(rng, 16) if rng.random() < 0.8 else bytes([rng.randrange(256)] * 16)
        first = None if rng.random() < 0.25 else k
        steps = [] if first is not None else [('k', k)]
        for _ in range(rng.randrange(1, 7)):
            q = rng.random()
            if q < 0.45:
                k = rng.choice(aes_derived_keys(k))[1] if rng.random() < 0.5 else rbytes(rng, 16)
                steps.append(('k', k))
            else:
                steps.append((rng.choice('ed'), rbytes(rng, 16) if rng.random() < 0.7 else k))
        if rng.random() < 0.3:        # a second object used in turns, keyed with keys derived from the first one's
            kb = rng.choice(aes_derived_keys(k))[1]
            extra = [('K', kb)] + [(rng.choice('EDK'), rng.choice([kb, k, rbytes(rng, 16)])) for _ in range(rng.randrange(1, 4))]
            for e_ in extra[1:]: steps.insert(rng.randrange(len(steps) + 1), e_)
            steps.insert(0, extra[0])
        ops.append(aes_hist_op(first, steps))
    elif r < 0.65:
        x = rbytes(rng, rng.choice([0, 1, 55, 56, 63, 64, 65, rng.randrange(0, 130)]))
        sim = _ref.Md5Sim().update(x)
        tail = rng.choice([sim.state_bytes(), sim.pending(), bytes(sim.buffer), sim.padding(), sim.length_block(), sim.padding() + sim.length_block(), x, b''])
        more = rbytes(rng, rng.choice([0, 1, 8, 64]))
        ops.append('md5 %s %s %s ref=%s' % (hx(x), hx(tail), hx(more), hashlib.md5(x + tail + more).hexdigest()))
        if rng.random() < 0.5:
            ops.append('md5.two a:%s b:%s a:%s fa b:%s fb' % (hx(x), hx(tail), hx(tail), hx(more)))
    elif r < 0.8:
        w32 = rng.random() < 0.5
        parts = ['%s %s' % (rng.choice('pnzf'), hx(rbytes(rng, rng.choice([0, 0, 1, 2, 4, 9])))) for _ in range(rng.randrange(1, 5))]
        ops.append('%s %d %s %s' % ('crc32.seq' if w32 else 'crc16.seq', rng.choice([0, (1 << (32 if w32 else 16)) - 1, rng.getrandbits(32 if w32 else 16)]),
                                   hx(rbytes(rng, rng.randrange(0, 12))), ' '.join(parts)))
    elif r < 0.9:
        size = rng.randrange(1, 24)
        st = []
        for _ in range(rng.randrange(1, 7)):
            off = rng.randrange(0, size + 1)
            st.append('d:%d:%d' % (rng.choice([0, 127, 128, 16512, rng.getrandbits(rng.choice([7, 14, 21, 35, 64]))]), off) if rng.random() < 0.5 else 'p:%d' % off)
            if st[-1][0] == 'd' and rng.random() < 0.7: st.append('p:%d' % off)
        ops.append('si.buf %s %s' % (hx(rbytes(rng, size) if rng.random() < 0.5 else bytes([rng.choice([0x80, 0xff, 0])]) * size), ' '.join(st)))
    else:
        x = rbytes(rng, rng.randrange(1, 12)); y = rbytes(rng, rng.randrange(1, 12))
        t2 = bytearray(_b64.b64encode(y))
        if rng.random() < 0.3: t2[rng.randrange(len(t2))] = rng.randrange(256)
        ops.append('b64.dec2 %s %s %d' % (hx(_b64.b64encode(x)), hx(t2), rng.choice([len(x), len(y), max(len(x), len(y)), len(x) + 2])))


def gen_misc(rng, ops):
    r = rng.random()
    if r < 0.2:
        x = rbytes(rng, rng.randrange(0, 40)); cut = rng.randrange(len(x) + 1)
        if rng.random() < 0.5: ops.append('crc32.chain %s %s %d' % (hx(x[:cut]), hx(x[cut:]), rng.choice([0xffffffff, 0, rng.getrandbits(32)])))
        else: ops.append('crc16.chain %s %s %d' % (hx(x[:cut]), hx(x[cut:]), rng.choice([0xffff, 0, rng.getrandbits(16)])))
    elif r < 0.35:
        steps = []
        for _ in range(rng.randrange(1, 6)):
            steps.append('f' if rng.random() < 0.3 else 'u:' + hx(rbytes(rng, rng.choice([0, 1, 55, 56, 63, 64, 65, rng.randrange(0, 130)]))))
        ops.append('md5.seq ' + ' '.join(steps))
    elif r < 0.5:
        k1 = rbytes(rng, 16); k2 = rbytes(rng, 16)
        blks = ' '.join(hx(rbytes(rng, 16)) for _ in range(rng.randrange(1, 4)))
        ops.append('aes.seq %s %s %s' % (rng.choice([hx(k1), '-']), hx(k2), blks) if rng.random() < 0.7 else 'aes.seq %s - %s' % (hx(k1), blks))
    elif r < 0.75:
        h = rng.choice(HOSTS); pt = rng.choice(PORTS) if rng.random() < 0.6 else str(rng.choice([rng.randrange(0, 70000), rng.getrandbits(33), rng.getrandbits(64)]))
        s = bytearray((h + ':' + pt).encode()) if rng.random() < 0.8 else bytearray(h.encode())
        if len(s) and rng.random() < 0.25: s[rng.randrange(len(s))] = rng.choice(b'@:%/ -+0')
        ops.append('url.host %s' % hx(s))
    elif r < 0.85:
        al = b'uh.%4@:'
        mk = lambda: bytes(rng.choice(al[:4] if rng.random() < 0.7 else al) for _ in range(rng.randrange(0, 4)))
        ops.append('url.mkhost %s %s %s %d' % (hx(mk()), hx(mk()), hx(mk()), rng.choice([0, 80, 65535, rng.randrange(65536)])))
    else:
        x = rbytes(rng, rng.choice([1, 2, 3, 6, 9]))
        t = bytearray(_b64.b64encode(x))
        if rng.random() < 0.5: t.insert(rng.randrange(len(t) + 1), 0)
        ops.append(rng.choice(['b64.decz %s %d' % (hx(t), len(x)), 'b64.declenz %s' % hx(t), 'b64.decapp %s %s' % (hx(t), hx(rbytes(rng, rng.randrange(0, 3))))]))
        if rng.random() < 0.5:
            mkh = lambda: rng.choice(HOSTS) + rng.choice(['', '', ':' + rng.choice(PORTS)])
            ops.append('url.host2 %s %s' % (hx(mkh().encode()), hx(mkh().encode())))


# ------------------------------------------------------------------------------------------ structured / adversarial families
# Random data almost never drives an accumulator into its corner (e.g. a second end-around carry needs the running sum to sit
# exactly at 0xffff): these deterministic families do. They run in BOTH tiers, before the random cases.
ALPHA = [0x00, 0x01, 0x7f, 0x80, 0xfe, 0xff]
WORDS = [b'\x00\x00', b'\x00\x01', b'\x7f\xff', b'\x80\x00', b'\xff\xfe', b'\xff\xff']


def _alpha_strings(maxlen):
    import itertools
    for ln in range(0, maxlen + 1):
        for t in itertools.product(ALPHA, repeat=ln):
            yield bytes(t)


def _batched(ops, n=64):
    for i in range(0, len(ops), n):
        yield ops[i:i + n]


def crc32_op(x):
    return 'crc32 %s 4294967295 ref=%d' % (hx(x), zlib.crc32(x) & 0xffffffff)


def md5_op(x, cuts=()):
    pieces, prev = [], 0
    for c in list(cuts) + [len(x)]:
        pieces.append(x[prev:c]); prev = c
    return 'md5 %s ref=%s' % (' '.join(hx(p) for p in pieces), hashlib.md5(x).hexdigest())


def gen_structured(tier):
    import itertools
    ops = []
    # (a) small-alphabet exhaustive enumeration
    for x in _alpha_strings(6):
        ops.append('sum16 %s' % hx(x))
        if len(x) <= 5:
            ops.append('sum8 %s' % hx(x))
        if len(x) <= 4:
            ops.append('crc16 %s 65535' % hx(x))
            ops.append(crc32_op(x))
        if len(x) <= 3:
            ops.append('crc16 %s 0' % hx(x))
            ops.append('crc32 %s 0' % hx(x))
            ops.append(md5_op(x))
            ops.append('url.rt %s 0' % hx(x)); ops.append('url.rt %s 1' % hx(x))
            ops.append('hex.rt %s 0 -' % hx(x)); ops.append('hex.rt %s 1 3a20' % hx(x))
            if x:
                ops.append('b64.rt %s' % hx(x))
                ops.append('b64.enc %s ref=%s' % (hx(x), hx(_b64.b64encode(x))))
                ops.append('si.parse %s' % hx(x))
    # 16-bit words over the boundary values, up to 5 words, with and without an odd tail byte
    for n in range(0, 6):
        for t in itertools.product(WORDS, repeat=n):
            w = b''.join(t)
            ops.append('sum16 %s' % hx(w))
            if n <= 4:
                for tail in (b'\x00', b'\x01', b'\xff'):
                    ops.append('sum16 %s' % hx(w + tail))
    # (b) saturating inputs: long runs of ff / fe / 00 / 80 followed by small tails, odd and even lengths
    tails = [b'', b'\x00', b'\x01', b'\xff', b'\x00\x01', b'\x00\x02', b'\xff\xff\x00\x01', b'\x01\x00\x01']
    for fill in (0xff, 0xfe, 0x00, 0x80):
        for ln in (2, 3, 4, 6, 8, 254, 255, 256, 257, 258, 510, 511, 512, 513, 514, 1023, 1024, 1025):
            for tail in tails:
                x = bytes([fill]) * ln + tail
                ops.append('sum16 %s' % hx(x)); ops.append('sum8 %s' % hx(x))
                if fill in (0xff, 0x00) and tail in (b'', b'\x01'):
                    ops.append('crc16 %s 65535' % hx(x)); ops.append(crc32_op(x))
    for ln in (55, 56, 57, 63, 64, 65, 119, 120, 121, 127, 128, 129):
        for fill in (0xff, 0x00, 0x80):
            x = bytes([fill]) * ln
            ops.append(md5_op(x)); ops.append(md5_op(x, (ln // 2,))); ops.append(md5_op(x, (1, ln - 1)))
    for ln in (4094, 4095, 4096, 4097, 65534, 65535, 65536):
        for tail in (b'', b'\x01', b'\x00\x01'):
            x = b'\xff' * ln + tail
            ops.append('sum16 %s' % hx(x)); ops.append('sum8 %s' % hx(x))
    for ln in (65535, 65536):
        x = b'\xff' * ln + b'\x01'
        ops.append('crc16 %s 65535' % hx(x)); ops.append(crc32_op(x)); ops.append(md5_op(x, (ln // 3, ln - 7)))
    # (c) table-driven codecs: every single byte value, and every byte value at each position of a quad / escape / digit pair
    for b in range(256):
        x = bytes([b])
        ops += ['crc16 %s 65535' % hx(x), crc32_op(x), 'crc16 %s 0' % hx(x), 'crc32 %s 0' % hx(x), 'sum8 %s' % hx(x), 'sum16 %s' % hx(x),
                'crc16 00%02x 65535' % b, crc32_op(bytes([0xff, b])), md5_op(x),
                'b64.rt %s' % hx(x), 'b64.enc %s ref=%s' % (hx(x + b'\xff\x00'), hx(_b64.b64encode(x + b'\xff\x00'))),
                'url.rt %s 0' % hx(x), 'url.enc %s 1' % hx(x), 'url.dec 25%02x41' % b, 'url.dec 2541%02x' % b,
                'hex.rt %s %d -' % (hx(x), b & 1), 'hex.decbuf %02x30 1' % b, 'hex.decbuf 30%02x 1' % b,
                'hex.decvec %02x46 -' % b, 'si.parse %s' % hx(x), 'si.parse ff%02x' % b]
        for pos in range(4):
            s = bytearray(b'QUJD'); s[pos] = b
            dl = 3 - (1 if s[-1:] == b'=' else 0) - (1 if s[-2:-1] == b'=' else 0)
            ops.append('b64.dec %s %d' % (hx(s), dl))
        ops.append('b64.decvec 5155%02x44' % b)
        k = bytes([b ^ 0x5a]) * 16
        ops.append('aes.enc %s %s' % (hx(k), hx(x * 16)))
        ops.append('aes.dec %s %s' % (hx(k), hx(x * 16)))
    # serializer / deserializer: boundary values of every width, both byte orders
    for e in 'bl':
        for w in (1, 2, 4, 8):
            top = (1 << (8 * w)) - 1
            for v in (0, 1, top >> 1, (top >> 1) + 1, top - 1, top, 0x0102030405060708 & top):
                ops.append('ser.rt %s i%d:%d' % (e, w, v))
                ops.append('ser.rt %s i%d:%d e:%s i%d:%d p:%s' % (e, w, v, 'l' if e == 'b' else 'b', w, v, hx(v.to_bytes(w, 'big'))))
    for x in _alpha_strings(2):
        for e in 'bl':
            ops += ['des.new %s %s' % (hx(x + b'\x01\x02'), e), 'des.int 2', 'des.int 2', 'des.int 1']
    # (d) scalable integer: every value within ±2 of each encoding-length boundary, exact / short / zero capacity
    for v in si_values(None):
        need = 1
        while need < 10 and v > SI_TABLE_MAX[need - 1]: need += 1
        ops += ['si.rt %d' % v, 'si.dump %d %d' % (v, need), 'si.dump %d %d' % (v, need - 1)]
    for c in _batched(ops):
        yield c


# ------------------------------------------------------------------------------------------ "own output" families
# Inputs built from each codec's OUTPUT alphabet and escape syntax (already-encoded text fed to the encoder again, strings
# made only of escape characters), exhaustive small alphabets of those characters, and position / length-residue sweeps
# (a specific byte value at a specific position, lengths over every residue mod 3 / 4 / 16 / 64). Deterministic, both tiers.
URL_ALPHA = b'%41Afg +/'
B64_ALPHA = b'A/+9z=-\x80 '
HEX_ALPHA = b'09afAFg :'


def _strings(alpha, maxlen, minlen=0):
    import itertools
    for ln in range(minlen, maxlen + 1):
        for t in itertools.product(alpha, repeat=ln):
            yield bytes(t)


def _url_model_encode(x, pm):
    spec = b' +&=<>"#,%{}|\\^[]`;?:@$' + (b'' if pm else b'/.')
    out = bytearray()
    for c in x:
        if c in spec or not (32 <= c <= 126): out += b'%%%02X' % c
        else: out.append(c)
    return bytes(out)


def gen_own_output(tier):
    ops = []
    # ---- URL: exhaustive over the escape syntax, both modes; hand-picked already-encoded texts; repeated encoding
    for i, x in enumerate(_strings(URL_ALPHA, 4)):
        ops.append('url.enc %s 0' % hx(x)); ops.append('url.enc %s 1' % hx(x))
        ops.append('url.rt %s %d' % (hx(x), i & 1))
        if len(x) <= 3: ops.append('url.rt %s %d' % (hx(x), 1 - (i & 1))); ops.append('url.dec %s' % hx(x))
    texts = [b'%41', b'100%25', b'100%25 off', b'%%', b'%2', b'+', b'%2B', b'%2b', b'%zz', b'%4', b'%', b'a%41b', b'%25', b'%2541',
             b'%41%42', b'%%41', b'%4%41', b'%41%', b'x%00y', b'%7e%7E', b'%ff%FF%fF', b'/a/b.c?d=e&f=%20', b'a+b c%2Bd', b'%25252525',
             b'%C3%A9', b'\xc3\xa9%c3%a9', b'%0', b'%g1', b'%1g', b'%%%', b'%41' * 20, b'%' * 33, b'+' * 17, b'%2' * 9 + b'%']
    for x in texts:
        for pm in (0, 1):
            e1 = _url_model_encode(x, pm); e2 = _url_model_encode(e1, pm)
            for y in (x, e1, e2):
                ops.append('url.enc %s %d' % (hx(y), pm)); ops.append('url.rt %s %d' % (hx(y), pm))
            ops.append('url.dec %s' % hx(x)); ops.append('url.dec %s' % hx(e1))
    for b in range(256):                       # '%' followed by every byte value and a hex digit, and vice versa
        ops.append('url.rt 25%02x41 %d' % (b, b & 1)); ops.append('url.rt 2541%02x %d' % (b, b & 1))
        ops.append('url.enc 25%02x66 0' % b); ops.append('url.enc 4125%02x 1' % b)
    # ---- Base64: base64 text encoded again (incl. '='), alphabet-only strings as encoder AND decoder input,
    #      every byte value at every position residue, every length residue
    for x in _strings(B64_ALPHA, 4, 1):
        if len(x) <= 3 or x[0] in b'A=-':
            ops.append('b64.rt %s' % hx(x)); ops.append('b64.enc %s ref=%s' % (hx(x), hx(_b64.b64encode(x))))
        if len(x) == 4:
            dl = 3 - (1 if x[-1:] == b'=' else 0) - (1 if x[-2:-1] == b'=' else 0)
            ops.append('b64.dec %s %d' % (hx(x), dl)); ops.append('b64.decvec %s' % hx(x))
    for x in (b'QQ==', b'QUI=', b'QUJD', b'====', b'=', b'==', b'A===', b'QUJDRA==', b'+/+/', b'AAAA', b'////'):
        e1 = _b64.b64encode(x); e2 = _b64.b64encode(e1)
        for y in (x, e1, e2):
            ops.append('b64.rt %s' % hx(y)); ops.append('b64.enc %s ref=%s' % (hx(y), hx(_b64.b64encode(y))))
            ops.append('b64.dec %s %d' % (hx(y), len(y))); ops.append('b64.decvec %s' % hx(y))
    for pos in range(9):
        for b in range(256):
            x = bytearray(b'\x00\x10\x83\x10\x51\x87\x20\x92\x8b'); x[pos] = b
            ops.append('b64.rt %s' % hx(x))
            if b % 8 == pos % 8: ops.append('b64.enc %s ref=%s' % (hx(x), hx(_b64.b64encode(bytes(x)))))
    for ln in range(1, 68):
        x = bytes((i * 37 + ln) & 0xff for i in range(ln))
        ops.append('b64.rt %s' % hx(x)); ops.append('b64.enc %s ref=%s' % (hx(x), hx(_b64.b64encode(x))))
        el = (ln + 2) // 3 * 4
        ops.append('b64.encbuf %s %d' % (hx(x), el)); ops.append('b64.encbuf %s %d' % (hx(x), el - 1))
        ops.append('b64.dec %s %d' % (hx(_b64.b64encode(x)), ln))
    # ---- hex strings: hex text as data, digit/delimiter alphabet as reader input, position and length sweeps
    for x in _strings(HEX_ALPHA, 4, 0):
        if len(x) <= 3:
            ops.append('hex.rt %s 0 -' % hx(x)); ops.append('hex.rt %s 1 3a20' % hx(x)); ops.append('hex.enc %s 1 20' % hx(x))
        ops.append('hex.decvec %s -' % hx(x)); ops.append('hex.decvec %s 3a20' % hx(x))
        if len(x) == 4: ops.append('hex.decbuf %s 2' % hx(x)); ops.append('hex.decbuf %s 1' % hx(x))
    for pos in range(8):
        for b in range(256):
            x = bytearray(b'\x01\x23\x45\x67\x89\xab\xcd\xef'); x[pos] = b
            ops.append('hex.rt %s %d %s' % (hx(x), (b ^ pos) & 1, ('-', '20', '3a', '2c20')[(b + pos) % 4]))
    for ln in range(0, 41):
        x = bytes((i * 29 + ln) & 0xff for i in range(ln))
        ops.append('hex.rt %s %d -' % (hx(x), ln & 1)); ops.append('hex.rt %s %d 20' % (hx(x), 1 - (ln & 1)))
        ops.append('hex.enc %s 0 20' % hx(x))
        t = x.hex().encode()
        ops.append('hex.decbuf %s %d' % (hx(t), ln)); ops.append('hex.decbuf %s %d' % (hx(t), max(ln - 1, 0)))
        ops.append('hex.decvec %s -' % hx(t)); ops.append('hex.rt %s 0 -' % hx(t))
    # ---- CRC: every byte value at every position of a short message, every length residue, message ++ own CRC, seeds
    for pos in range(5):
        for b in range(256):
            x = bytearray(5); x[pos] = b
            ops.append(crc32_op(bytes(x))); ops.append('crc16 %s 65535' % hx(x))
            if pos < 2: ops.append('crc32 %s %d' % (hx(x), (b * 0x01010101) & 0xffffffff)); ops.append('crc16 %s %d' % (hx(x), b * 257))
    for ln in range(0, 70):
        x = bytes((i * 101 + ln) & 0xff for i in range(ln))
        ops.append(crc32_op(x)); ops.append('crc16 %s 65535' % hx(x)); ops.append('sum8 %s' % hx(x)); ops.append('sum16 %s' % hx(x))
        ops.append(crc32_op(x + (zlib.crc32(x) & 0xffffffff).to_bytes(4, 'little')))
        ops.append(md5_op(x)); ops.append(md5_op(hashlib.md5(x).hexdigest().encode()))
    for seed in (0, 1, 0x8000, 0xfffe, 0xffff, 0x1021, 0x00ff, 0xff00):
        ops.append('crc16 313233343536373839 %d' % seed); ops.append('crc16 - %d' % seed)
    for seed in (0, 1, 0x80000000, 0xfffffffe, 0xffffffff, 0xedb88320, 0x04c11db7, 0x0000ffff):
        ops.append('crc32 313233343536373839 %d' % seed); ops.append('crc32 - %d' % seed)
    # ---- AES: one distinguished byte at every position of block and of key; S-box corner values
    for pos in range(16):
        for v in (0x01, 0x80, 0xff, 0x1b, 0x63, 0x52):
            e = bytearray(16); e[pos] = v
            z = bytes(16); f = bytes([0xff]) * 16
            for (k, blk) in ((bytes(e), z), (z, bytes(e)), (bytes(e), bytes(e)), (f, bytes(e))):
                ops.append('aes.enc %s %s' % (hx(k), hx(blk))); ops.append('aes.dec %s %s' % (hx(k), hx(blk)))
            ops.append('aes.rt %s %s' % (hx(bytes(e)), hx(bytes(reversed(e)))))
    # ---- serializer / deserializer: every width at every offset 0..8, exact and one-short capacity, both byte orders; POD sizes
    for e in 'bl':
        for k in range(0, 9):
            pre = bytes(range(0xa0, 0xa0 + k))
            for w in (1, 2, 4, 8):
                v = 0x0102030405060708 & ((1 << (8 * w)) - 1)
                for cap in (k + w, k + w - 1):
                    ops += ['ser.raw %d %s' % (cap, e), 'ser.bytes %s' % hx(pre), 'ser.int %d %d' % (w, v), 'ser.int 1 255']
                ops += ['ser.vec %s %s' % (hx(pre), e), 'ser.bytes %s' % hx(pre), 'ser.int %d %d' % (w, v)]
                data = pre + bytes(range(1, w + 1))
                ops += ['des.new %s %s' % (hx(data), e), 'des.skip %d' % k, 'des.int %d' % w, 'des.int 1']
                ops += ['des.new %s %s' % (hx(data[:-1]), e), 'des.skip %d' % k, 'des.int %d' % w, 'des.setpos %d' % k, 'des.nocopy %d' % (w - 1)]
                ops.append('ser.rt %s r:%s i%d:%d e:%s i%d:%d' % (e, hx(pre), w, v, 'l' if e == 'b' else 'b', w, v))
            ops.append('ser.rt %s p:%s r:%s p:%s' % (e, hx(bytes(range(1, k + 2))), hx(pre), hx(bytes(range(1, k + 2)))))
            ops += ['des.new %s %s' % (hx(bytes(range(1, k + 2))), e), 'des.pod %d' % (k + 1), 'des.setpos 0', 'des.bytes %d' % (k + 1), 'des.pod 1']
    # ---- scalable integer: the writer's output parsed back when followed by more output / truncated by one byte
    for v in si_values(None):
        ops.append('si.rt %d' % v)
    for c in _batched(ops):
        yield c


# ------------------------------------------------------------------------------------------ memory placement (round 7, lesson c)
# Every entry point that takes a raw pointer is driven with its input block starting at each alignment 0..7, right-aligned
# against the end of an exactly sized heap allocation (ASan redzone directly behind the last byte) and left-aligned after a
# canary, for lengths 0..3, 4±1, 8±1, 16±1, 63..65; output blocks are placed the same way (at another alignment). The models
# are placement independent, so every placement must give the model's answer. The std::string / std::vector entry points own
# their storage (allocator-aligned), there is nothing to place. Deterministic, both tiers.
PLACE_LENS = [0, 1, 2, 3, 4, 5, 7, 8, 9, 15, 16, 17, 63, 64, 65]


def _pdata(ln, salt):
    return bytes((i * 73 + salt * 29 + ln * 7 + 1) & 0xff for i in range(ln))


def placement_ops(mode, ai, ln):
    ao = (ai + 3) % 8
    sfx = ' @%s%d%d' % (mode, ai, ao)
    x = _pdata(ln, ai)
    e = _b64.b64encode(x)
    ops = [crc32_op(x), 'crc32 %s %d' % (hx(x), (ln * 0x01000193 + ai) & 0xffffffff), 'crc16 %s 65535' % hx(x), 'crc16 %s %d' % (hx(x), ln * 257 + ai),
           'sum8 %s' % hx(x), 'sum16 %s' % hx(x), md5_op(x), md5_op(x, (ln // 2,)), 'md5.seq u:%s f' % hx(x),
           'crc32.chain %s %s 4294967295' % (hx(x[:ln // 3]), hx(x[ln // 3:])), 'crc16.chain %s %s 65535' % (hx(x[:ln // 2]), hx(x[ln // 2:])),
           'b64.declen %s' % hx(e), 'b64.declenz %s' % hx(e), 'b64.dec %s %d' % (hx(e), ln), 'b64.decz %s %d' % (hx(e), ln),
           'b64.dec %s %d' % (hx(x), ln), 'b64.declen %s' % hx(x),            # raw bytes as (mostly invalid) Base64 text of that length
           'hex.enc %s %d -' % (hx(x), ai & 1), 'hex.rt %s %d -' % (hx(x), 1 - (ai & 1)), 'hex.rt %s 0 20' % hx(x),
           'hex.decbuf %s %d' % (hx(x.hex().encode()), ln), 'hex.decbuf %s %d' % (hx(x.hex().encode()), ln + 1),
           'si.parse %s' % hx(x), 'si.parse %s' % hx(bytes([0x80 | b for b in x[:-1]]) + bytes([b & 0x7f for b in x[-1:]]))]
    if ln:
        el = (ln + 2) // 3 * 4
        ops += ['b64.enc %s ref=%s' % (hx(x), hx(e)), 'b64.encbuf %s %d' % (hx(x), el), 'b64.encbuf %s %d' % (hx(x), el - 1), 'b64.rt %s' % hx(x),
                'b64.dec %s %d' % (hx(e), ln - 1), 'hex.decbuf %s %d' % (hx(x.hex().encode()), ln - 1)]
    # scalable integer: a value needing min(ln,10) bytes into a block of exactly ln bytes (ln = 0: refused)
    need = max(1, min(ln, 10))
    v = SI_TABLE_MAX[need - 1] if need <= 9 else (1 << 64) - 1 - ai
    ops += ['si.dump %d %d' % (v, ln), 'si.dump %d %d' % (v, need - 1), 'si.rt %d' % v]
    # serializer / deserializer on placed blocks
    for en in 'bl':
        ops += ['ser.raw %d %s' % (ln, en), 'ser.bytes %s' % hx(x[:ln // 2]), 'ser.int 2 513', 'ser.pod %s' % hx(x[:3]), 'ser.int 8 72623859790382856',
                'ser.int 4 16909060', 'ser.int 1 255', 'ser.bytes %s' % hx(x), 'ser.big 18446744073709551615',
                'des.new %s %s' % (hx(x), en), 'des.int 1', 'des.int 2', 'des.pod 3', 'des.int 4', 'des.nocopy 2', 'des.int 8', 'des.bytes %d' % (ln // 2),
                'des.check 1', 'des.bytes %d' % ln, 'des.setpos 0', 'des.bytes %d' % ln, 'des.pod 1', 'des.skip 18446744073709551615',
                'ser.rt %s r:%s i4:305419896 p:%s s2:-2' % (en, hx(x), hx(x[:5]))]
    if ln in (15, 16, 17):          # AES has only 16-byte blocks: alignment is what varies
        k = _pdata(16, ai + 8); blk = _pdata(16, ln)
        ops += ['aes.enc %s %s' % (hx(k), hx(blk)), 'aes.dec %s %s' % (hx(k), hx(blk)), 'aes.rt %s %s' % (hx(k), hx(blk)),
                'aes.seq %s %s %s %s' % (hx(k), hx(blk), hx(blk), hx(k)), 'aes.seq - %s %s' % (hx(k), hx(blk))]
    return [o + sfx for o in ops]


def gen_placement(tier):
    for mode in 'RL':
        for ai in range(8):
            for ln in PLACE_LENS:
                yield placement_ops(mode, ai, ln)


# ------------------------------------------------------------------------------------------ width / sign boundaries (lesson a)
PORTS = ['0', '1', '80', '00080', '65535', '65536', '65537', '65616', '99999', '131071', '2147483647', '2147483648', '2147483649',
         '4294967295', '4294967296', '4294967376', '99999999999', '9223372036854775807', '9223372036854775808', '18446744073709551615',
         '18446744073709551616', '-1', '-0', '-80', '-65535', '-65536', '-65537', '-2147483648', '-2147483649', '+80', '+-80', ' 80', '\t80', '80 ',
         '80abc', '0x50', '8 0', '', '-', '+', ' ', 'abc', '80:90', '65536:1', '1e3', '%38%30']
HOSTS = ['h', 'example.com', '', 'u@h', 'u:p@h', 'u:@h', ':p@h', '@h', 'u@', 'a@b@c', 'u:p:q@h', '%41%42', 'u%40x:p%3Aq@h%2Fz', '%zz', 'u@%zz', '%zz@h', 'u:%4@h',
         'u%', '[::1]', 'h%00']


def gen_width(tier):
    ops = []
    for h in HOSTS:
        ops.append('url.host %s' % hx(h.encode()))
        for pt in PORTS:
            ops.append('url.host %s' % hx((h + ':' + pt).encode()))
    for u in ('', 'u', 'u x', 'a%b', 'a:b', 'a@b'):
        for pw in ('', 'p', 'p@q', 'p:q'):
            for h in ('h', '', 'h.x', 'h:x', 'h%41'):
                for port in (0, 1, 80, 9, 10, 99, 100, 32767, 32768, 65534, 65535):
                    if (port in (0, 80, 65535)) or (u == 'u' and pw in ('', 'p') and h == 'h'):
                        ops.append('url.mkhost %s %s %s %d' % (hx(u.encode()), hx(pw.encode()), hx(h.encode()), port))
    for port in range(0, 65536, 4099):
        ops.append('url.mkhost 75 70 68 %d' % port); ops.append('url.host %s' % hx(b'h:%d' % (port + 65536)))
    # size_t arithmetic of the (de)serializer bounds checks: need_size on both sides of 2^31 / 2^32 / 2^63 / 2^64 - pos
    BIG = [2 ** 31 - 1, 2 ** 31, 2 ** 32 - 1, 2 ** 32, 2 ** 63 - 1, 2 ** 63, 2 ** 64 - 8, 2 ** 64 - 5, 2 ** 64 - 4, 2 ** 64 - 3, 2 ** 64 - 2, 2 ** 64 - 1]
    groups = []                      # stateful sequences: one case each
    for en in 'bl':
        for pos in (0, 1, 4, 7, 8):
            g_ = ['des.new 0102030405060708 %s' % en, 'des.skip %d' % pos]
            for b in BIG:
                g_ += ['des.check %d' % b, 'des.skip %d' % b, 'des.nocopy %d' % b, 'des.bytes %d' % b, 'des.pod %d' % b, 'des.setpos %d' % b]
            g_ += ['des.check %d' % (8 - pos), 'des.check %d' % (9 - pos), 'des.check 0', 'des.int 1']
            g_ += ['ser.raw 8 %s' % en, 'ser.bytes %s' % hx(bytes(pos))]
            for b in BIG:
                g_ += ['ser.big %d' % b]
            g_ += ['ser.big 9', 'ser.int 1 7']
            groups.append(g_)
        groups.append(['des.new - %s' % en, 'des.check 0', 'des.check 1', 'des.skip 18446744073709551615', 'des.setpos 0', 'des.nocopy 0', 'des.pod 0',
                       'des.bytes 0'])
    for g_ in groups:
        yield g_
    # signed / floating stream operators: static_cast<uintN_t>(intN_t) and back
    for en in 'bl':
        for w_ in (1, 2, 4, 8):
            half = 1 << (8 * w_ - 1)
            for v in (-half, -half + 1, -129, -128, -127, -2, -1, 0, 1, 127, 128, half - 2, half - 1):
                if -half <= v < half:
                    ops.append('ser.rt %s s%d:%d' % (en, w_, v))
                    ops.append('ser.rt %s s%d:%d i%d:%d e:%s s%d:%d' % (en, w_, v, w_, v % (2 * half), 'l' if en == 'b' else 'b', w_, v))
        for f4 in ('00000000', '00000080', '0000803f', '0000c07f', '0100c07f', '0000807f', '000080ff', '01000000', 'ffffffff', 'ffff7f7f', '12345678'):
            ops.append('ser.rt %s f4:%s' % (en, f4)); ops.append('ser.rt %s i1:7 f4:%s s1:-7' % (en, f4))
        for f8 in ('0000000000000000', '0000000000000080', '000000000000f03f', '000000000000f87f', '010000000000f07f', '000000000000f0ff',
                   '0100000000000000', 'ffffffffffffffff', 'ffffffffffffef7f', '0123456789abcdef'):
            ops.append('ser.rt %s f8:%s' % (en, f8)); ops.append('ser.rt %s f8:%s f4:0000c07f s8:-9223372036854775808' % (en, f8))
    for c in _batched(ops, 48):
        yield c


# ------------------------------------------------------------------------------------------ laws of the stateful / chained entry points
def gen_laws(tier):
    ops = []
    msg = bytes(range(1, 12))
    for la in range(0, 6):
        for lb in range(0, 6):
            a, b = msg[:la], msg[la:la + lb]
            for seed in (0xffffffff, 0, 0x12345678):
                ops.append('crc32.chain %s %s %d' % (hx(a), hx(b), seed))
            for seed in (0xffff, 0, 0x1d0f):
                ops.append('crc16.chain %s %s %d' % (hx(a), hx(b), seed))
    for ln in (63, 64, 65, 255, 256, 257):
        x = _pdata(ln, 3)
        for cut in (0, 1, ln // 2, ln - 1, ln):
            ops.append('crc32.chain %s %s 4294967295' % (hx(x[:cut]), hx(x[cut:]))); ops.append('crc16.chain %s %s 65535' % (hx(x[:cut]), hx(x[cut:])))
    # MD5 life cycle: update* finish is the only clean history; everything after the first finish aborts
    for script in ('f', 'u:- f', 'u:61 f', 'u:61 u:6263 f', 'f f', 'f u:61', 'f u:-', 'u:61 f f', 'u:61 f u:62 f', 'u:61 f u:-', 'u:- u:- f f f',
                   'u:%s f' % hx(_pdata(64, 1)), 'u:%s u:%s f u:00' % (hx(_pdata(55, 2)), hx(_pdata(9, 3))), 'u:%s f f' % hx(_pdata(56, 4))):
        ops.append('md5.seq ' + script)
    # AES: the object keeps nothing but the round keys: setKey replaces them all, blocks are independent, in-place is fine
    k1, k2 = bytes(range(16)), bytes(range(0x10, 0x20))
    b1, b2 = bytes.fromhex('00112233445566778899aabbccddeeff'), bytes(16)
    ops += ['aes.seq %s - %s' % (hx(k1), hx(b1)), 'aes.seq %s %s %s' % (hx(k1), hx(k2), hx(b1)), 'aes.seq - %s %s' % (hx(k1), hx(b1)),
            'aes.seq %s %s %s %s %s' % (hx(k2), hx(k1), hx(b1), hx(b2), hx(b1)), 'aes.seq %s %s %s' % (hx(k1), hx(k1), hx(b2)), 'aes.seq - - %s' % hx(b1)]
    ops += ['aes.unkeyed %s' % hx(x_) for x_ in (b1, b2, k1, bytes([0xff] * 16))] + ['aes.unkeyed %s @R%d%d' % (hx(_pdata(16, i_)), i_, 7 - i_) for i_ in range(8)]
    # Base64 C-string overloads (text ends at the first NUL) and decoding onto a vector that already holds data
    for t in (b'QUJD', b'QUI=', b'QQ==', b'QUJDREVG', b'', b'QUJ', b'QU*D'):
        ops += ['b64.decz %s %d' % (hx(t), 6), 'b64.declenz %s' % hx(t), 'b64.decapp %s -' % hx(t), 'b64.decapp %s 0102' % hx(t)]
        for pos in range(len(t) + 1):
            z = t[:pos] + b'\x00' + t[pos:]
            ops += ['b64.decz %s 6' % hx(z), 'b64.declenz %s' % hx(z), 'b64.dec %s 6' % hx(z), 'b64.decapp %s ff' % hx(z)]
    for c in _batched(ops, 48):
        yield c


# ------------------------------------------------------------------------------------------ state-derived inputs (round 8, lesson g)
# Every object of the package that caches something derived from earlier calls is driven through multi-step histories on ONE
# object in which the next input EQUALS or is DERIVED FROM each piece of that cached state, in each representation the code
# keeps: AES (the previous key, its 4x4 transpose = the memory image of w[0], its byte reverse, each of the 11 round keys in
# memory order and in FIPS order, keys differing from those in one byte), MD5 (chaining state bytes, pending buffer bytes,
# the padding and length block, after exactly 55/56/63/64 buffered bytes; two objects in turns), CRC (seed = previous result,
# its complement, 0, all ones; data = the previous result's bytes), scalable integer (parse what was just dumped into the
# same buffer at an offset), Base64 (decode into the buffer that holds the previous output), (de)serializer (view of the
# serializer's own output, append after fetch, set_pos to the current / previous / end position). Deterministic, both tiers.
def flip(b, pos, x=0x01):
    t = bytearray(b); t[pos] ^= x; return bytes(t)


def aes_derived_keys(k):
    """(name, key) pairs derived from what an object holding k caches"""
    rk = _ref.aes_round_keys(k)
    out = [('same', k), ('transpose', _ref.transpose16(k)), ('reverse', k[::-1]), ('transpose-reverse', _ref.transpose16(k)[::-1])]
    for i in range(1, 11):
        out.append(('rk%d-fips' % i, rk[i])); out.append(('rk%d-mem' % i, _ref.transpose16(rk[i])))
    for pos in (0, 1, 4, 5, 15):
        out.append(('flip%d' % pos, flip(k, pos))); out.append(('tflip%d' % pos, flip(_ref.transpose16(k), pos, 0x80)))
    return out


AES_BASE_KEYS = [bytes(range(16)), bytes.fromhex('2b7e151628aed2a6abf7158809cf4f3c'), bytes((i * 73 + 11) & 0xff for i in range(16)),
                 bytes([7] * 16),                                            # symmetric: transpose = itself
                 bytes.fromhex('00010203010405060205070803060809'),          # symmetric 4x4 matrix with distinct entries
                 bytes.fromhex('000102030104050602050708030609ff')]          # symmetric but for one pair


def aes_hist_op(k0, steps):
    return 'aes.hist %s %s' % (hx(k0) if k0 is not None else '-', ' '.join('%s:%s' % (t, hx(v)) for t, v in steps))


def gen_state_derived(tier):
    ops = []
    blk = bytes.fromhex('00112233445566778899aabbccddeeff'); z = bytes(16)
    # ---- AES: K1, then a key derived from the object's cache, then back
    for k1 in AES_BASE_KEYS:
        ct1 = _ref.aes_encrypt(k1, blk)
        for name, k2 in aes_derived_keys(k1):
            ops.append(aes_hist_op(k1, [('e', blk), ('k', k2), ('e', blk), ('d', ct1), ('k', k1), ('e', z)]))
            ops.append(aes_hist_op(None, [('k', k1), ('k', k2), ('d', blk), ('e', blk)]))
        t = _ref.transpose16(k1)
        ops.append(aes_hist_op(k1, [('k', t), ('e', blk), ('k', k1), ('e', blk), ('k', t), ('k', k1), ('k', t), ('d', blk), ('e', blk)]))
        ops.append(aes_hist_op(k1, [('k', k1), ('k', k1), ('e', blk), ('k', t), ('k', t), ('e', blk), ('k', _ref.transpose16(t)), ('e', blk)]))
        # the key is the previous OUTPUT / the previous input block
        ops.append(aes_hist_op(k1, [('e', blk), ('k', ct1), ('e', blk), ('k', blk), ('e', ct1), ('k', _ref.transpose16(ct1)), ('d', ct1)]))
        # walk down the key schedule: every round key becomes the next key, in both layouts
        rk = _ref.aes_round_keys(k1)
        ops.append(aes_hist_op(k1, sum(([('k', rk[i]), ('e', blk)] for i in range(1, 11)), [])))
        ops.append(aes_hist_op(None, sum(([('k', _ref.transpose16(rk[i])), ('d', blk)] for i in range(0, 11)), [])))
        # two objects in turns: B is keyed with what A caches (and vice versa) between A's calls
        ops.append(aes_hist_op(k1, [('e', blk), ('K', t), ('e', blk), ('E', blk), ('k', t), ('K', k1), ('e', blk), ('E', blk), ('D', ct1), ('d', ct1)]))
        ops.append(aes_hist_op(None, [('K', k1), ('k', rk[1]), ('E', blk), ('e', blk), ('K', rk[1]), ('k', k1), ('E', blk), ('e', blk)]))
    # ---- MD5: pieces derived from the object's state after x
    for ln in (0, 1, 8, 55, 56, 57, 63, 64, 65, 119, 120, 127, 128):
        x = _pdata(ln, 5)
        sim = _ref.Md5Sim().update(x)
        st, pend, pad, lb = sim.state_bytes(), sim.pending(), sim.padding(), sim.length_block()
        for tail in ([st], [pend], [bytes(sim.buffer)], [pad, lb], [pad, lb, b'a'], [pad + lb], [x], [hashlib.md5(x).digest()], [pad[:1]], [lb],
                     [b''], [b'\x00'], [bytes(8)], [bytes(9)], [bytes(64)], [st, pend, st]):
            pieces = [x] + tail
            whole = b''.join(pieces)
            ops.append('md5 %s ref=%s' % (' '.join(hx(p_) for p_ in pieces), hashlib.md5(whole).hexdigest()))
        y = _pdata(ln // 2 + 3, 6)
        ops.append('md5.two a:%s b:%s a:%s b:%s fa b:%s fb' % (hx(x), hx(y), hx(st), hx(pend), hx(x)))
        ops.append('md5.two a:%s b:%s fb a:%s fa' % (hx(x), hx(x), hx(pad + lb)))
        ops.append('md5.two b:%s a:%s a:%s b:%s fa fb' % (hx(x[:ln // 2]), hx(x[:ln // 2]), hx(x[ln // 2:]), hx(x[ln // 2:])))
        ops.append('md5.two fa b:%s fb' % hx(x)); ops.append('md5.two a:%s fa' % hx(x))
    # ---- CRC: seeds derived from the previous result, data derived from the previous result
    for ln in (0, 1, 2, 3, 4, 5, 8, 9, 33):
        x = _pdata(ln, 7)
        for seed in (0xffffffff, 0, 0x12345678):
            r1 = zlib.crc32(x, seed ^ 0xffffffff) & 0xffffffff
            le, be = r1.to_bytes(4, 'little'), r1.to_bytes(4, 'big')
            ops.append('crc32.seq %d %s n %s n %s' % (seed, hx(x), hx(x[::-1]), hx(b'\x01')))
            ops.append('crc32.seq %d %s p %s n %s z %s f %s' % (seed, hx(x), hx(x), hx(le), hx(be), hx(x)))
            ops.append('crc32.seq %d %s n %s p - n - z - f -' % (seed, hx(x), hx(le)))
            ops.append('crc32.seq %d %s n - n - p - p -' % (seed, hx(x)))
            ops.append('crc32 %s %d' % (hx(x + le), seed)); ops.append('crc32 %s %d' % (hx(le), r1)); ops.append('crc32 %s %d' % (hx(x), r1 ^ 0xffffffff))
        for seed in (0xffff, 0, 0x1d0f):
            r1 = _ref.crc16(x, seed)
            le, be = r1.to_bytes(2, 'little'), r1.to_bytes(2, 'big')
            ops.append('crc16.seq %d %s p %s p %s' % (seed, hx(x), hx(x[::-1]), hx(b'\x01')))
            ops.append('crc16.seq %d %s n %s p %s z %s f %s' % (seed, hx(x), hx(x), hx(be), hx(le), hx(x)))
            ops.append('crc16.seq %d %s p %s p - n - z - f -' % (seed, hx(x), hx(be)))
            ops.append('crc16 %s %d' % (hx(x + be), seed)); ops.append('crc16 %s %d' % (hx(be), r1)); ops.append('crc16 %s %d' % (hx(x), r1 ^ 0xffff))
    # ---- scalable integer: parse what was just dumped into the same buffer, at the same / neighbouring offsets
    for fill in (0xA5, 0x00, 0x80, 0xff, 0x7f):
        for v in (0, 127, 128, 16511, 16512, 0x20407F + 1, 0x810204081020407F, 0x810204081020407F + 1, (1 << 64) - 1):
            need = 1
            while need < 10 and v > SI_TABLE_MAX[need - 1]: need += 1
            for off in (0, 1, 3):
                size = off + need + 2
                buf = bytes([fill]) * size
                st = ['d:%d:%d' % (v, off), 'p:%d' % off, 'p:%d' % (off + 1), 'p:%d' % max(off - 1, 0), 'd:%d:%d' % (v ^ 1, off + need), 'p:%d' % off,
                      'p:%d' % (off + need), 'd:%d:%d' % (v, off + 1), 'p:%d' % off, 'p:%d' % (off + 1), 'p:%d' % size, 'd:%d:%d' % (v, size),
                      'd:%d:%d' % (v, size - need + 1), 'd:%d:%d' % (v, size - need), 'p:%d' % (size - need)]
                ops.append('si.buf %s %s' % (hx(buf), ' '.join(st)))
    vs = [0, 127, 128, 16511, 16512, 2113663, 2113664, (1 << 32), (1 << 63), (1 << 64) - 1]
    st, off = [], 0
    for v in vs:                      # a stream of encodings, then parse each where it starts
        need = 1
        while need < 10 and v > SI_TABLE_MAX[need - 1]: need += 1
        st.append('d:%d:%d' % (v, off)); off += need
    offs, o2 = [], 0
    for v in vs:
        need = 1
        while need < 10 and v > SI_TABLE_MAX[need - 1]: need += 1
        offs.append(o2); o2 += need
    ops.append('si.buf %s %s' % (hx(b'\xff' * off), ' '.join(st + ['p:%d' % o for o in offs] + ['p:%d' % off])))
    ops.append('si.buf %s %s' % (hx(b'\x80' * (off - 1)), ' '.join(st + ['p:%d' % o for o in offs])))      # last one does not fit
    # ---- Url::Host: the second parse goes into the object the first one filled (and: print(h) parsed into a used object)
    firsts = ['u:p@x:1', 'u@x', 'x:8080', 'x', '', 'a%40b:c%3Ad@e:65535', 'u:p@x:99999999999', 'u:%zz@x', '%zz@x:1', 'u:p@%zz', 'u:p@x:', '@x', ':p@x']
    seconds = ['h', 'h:80', 'h:0', '', ':81', 'v@h', 'v:q@h:2', 'v:@h', 'h:abc', '%zz', '%zz:80', 'v:%zz@h', 'h:65616', 'v@', '@', ':', 'u:p@x:1']
    for f1 in firsts:
        for s2 in seconds:
            ops.append('url.host2 %s %s' % (hx(f1.encode()), hx(s2.encode())))
    for (u, pw, h, port) in (('', '', 'h', 0), ('', '', 'h', 80), ('v', '', 'h', 0), ('v', 'q', 'h', 8), ('', '', '', 0), ('', '', '', 9), ('v', 'q w', 'h.x', 65535)):
        t = (u + ((':' + pw) if pw else '') + '@' if u else '') + h + ((':%d' % port) if port else '')
        for f1 in firsts[:6]:
            ops.append('url.host2 %s %s' % (hx(f1.encode()), hx(t.encode())))
    # ---- Base64: decode into the buffer holding the previous output
    for ln in (1, 2, 3, 4, 5, 6, 9, 16):
        x = _pdata(ln, 9); e1 = _b64.b64encode(x)
        for t2 in (e1, _b64.b64encode(x[::-1]), _b64.b64encode(x[:ln - 1]) if ln > 1 else b'QQ==', _b64.b64encode(x + b'\x01'), _b64.b64encode(_b64.b64encode(x)[:ln]),
                   e1[:-1] + b'*', b'*' + e1[1:], e1[:-1], b'====', b'', x):
            for cap in (ln, ln + 1, ln + 3):
                ops.append('b64.dec2 %s %s %d' % (hx(e1), hx(t2), cap))
        ops.append('b64.dec2 %s %s %d' % (hx(_b64.b64encode(x + b'\x01\x02')), hx(e1), ln + 2))
    # every third history also runs at a memory placement (lesson c): unaligned, against the redzone
    ops = [o + ' @%s%d%d' % ('RL'[i % 2], i % 8, (i * 3 + 1) % 8) if i % 3 == 1 else o for i, o in enumerate(ops)]
    for c in _batched(ops, 48):
        yield c
    # ---- serializer / deserializer: view of the own output, append after fetch, set_pos to current / previous / end position
    for en in 'bl':
        for mode in ('ser.raw 12 %s' % en, 'ser.vec - %s' % en, 'ser.vec a1a2a3 %s' % en):
            yield [mode, 'ser.int 4 16909060', 'ser.view %s' % en, 'des.int 4', 'des.int 1', 'ser.int 2 1286', 'des.int 2', 'des.check 1', 'ser.view %s' % en,
                   'des.setpos 4', 'des.int 2', 'des.setpos 4', 'des.setpos 5', 'des.int 2', 'des.setpos 6', 'des.setpos 5', 'des.int 1', 'des.setpos 5', 'des.skip 1',
                   'des.setpos 0', 'des.int 8', 'des.int 4', 'des.int 2', 'des.int 1', 'ser.pod 0708', 'ser.view %s' % ('l' if en == 'b' else 'b'), 'des.int 4',
                   'des.pod 2', 'des.nocopy 2', 'des.nocopy 1', 'ser.bytes 090a0b0c', 'ser.int 1 13', 'ser.view %s' % en, 'des.skip 8', 'des.bytes 4', 'des.check 0',
                   'des.check 1', 'des.setpos 11', 'des.int 1', 'des.setpos 11', 'des.int 2', 'des.int 1']
        yield ['des.new 0102030405060708 %s' % en, 'des.int 2', 'des.setpos 2', 'des.int 2', 'des.setpos 2', 'des.int 2', 'des.setpos 0', 'des.int 2', 'des.setpos 7',
               'des.int 2', 'des.setpos 7', 'des.int 1', 'des.setpos 8', 'des.setpos 7', 'des.skip 1', 'des.setpos 8', 'des.check 0', 'des.int 1', 'des.skip 0',
               'des.setpos 3', 'des.endian %s' % ('l' if en == 'b' else 'b'), 'des.int 4', 'des.setpos 3', 'des.endian %s' % en, 'des.int 4', 'des.nocopy 1', 'des.nocopy 1']


# ------------------------------------------------------------------------------------------ aliased buffers (round 10)
# Base64 decode with text and output in ONE heap block (`b64.decip pre text post dst cap`: the block is pre ++ text ++ post, the output pointer is
# block + dst, the text pointer block + |pre|): in place (dst = |pre|) and output 1..3 bytes before the text (an output pointer behind the start of the
# text is outside the contract — counterexample theorem — and a bad-op on both sides); valid texts of every length class, pads, invalid characters at every quad position, exact /
# short / roomy capacities. Serializer self-append (`ser.self off k r`): source = own written data, raw and vector mode, reserved / unreserved.
def _ip_ops(text, extra_post=b''):
    n = len(text)
    pads = 2 if text[-2:] == b'==' else 1 if text[-1:] == b'=' else 0
    dl = n // 4 * 3 - pads if n and n % 4 == 0 else 0
    ops = []
    for pre, dst_rel in ((b'', 0), (b'\x11\x22\x33', 0), (b'\x11\x22\x33', -1), (b'\x11\x22\x33', -3), (b'\x11\x22', -2)):
        dst = len(pre) + dst_rel
        for cap in sorted(set([dl, max(dl - 1, 0), dl + 1, n])):
            room = max(0, dst + cap - len(pre) - n)
            post = (extra_post + b'\xee' * room)[:max(room, len(extra_post))]
            ops.append('b64.decip %s %s %s %d %d' % (hx(pre), hx(text), hx(post), dst, cap))
    return ops


def gen_alias(tier):
    ops = []
    datas = [b'A', b'AB', b'ABC', b'ABCD', b'ABCDE', b'ABCDEF', bytes(range(250, 256)) + bytes(range(0, 7)), b'\xff' * 9, b'\x00' * 10, bytes(range(48))]
    for x in datas:
        ops += _ip_ops(_b64.b64encode(x), b'\x77')
    # invalid / high / pad characters at each position of the second quad, text not a multiple of four, empty text
    for pos in range(4, 8):
        for bad in (0x40, 0x80, 0xff, 0x3d, 0x00):
            t = bytearray(b'QUJDREVG'); t[pos] = bad
            ops += _ip_ops(bytes(t))[:8]
    ops += _ip_ops(b'QUJDR')[:4] + ['b64.decip 1122 - 33 0 0', 'b64.decip 1122 - 33 2 1', 'b64.decip - 51554a44 - 0 5', 'b64.decip - 51554a44 0000 2 3', 'b64.decip 11 51554a44 00 2 3']
    # the output of an in-place decode re-encoded text decoded in place again (own previous output as input)
    x = _b64.b64encode(_b64.b64encode(b'in place twice!'))
    ops += _ip_ops(x)[:4]
    # two of three run at a memory placement (lesson c): block start at alignment 0..7, right-aligned against the redzone / left-aligned
    ops = [o + ' @%s%d%d' % ('RL'[i % 2], i % 8, (i * 5 + 3) % 8) if i % 3 else o for i, o in enumerate(ops)]
    for c in _batched(ops, 40):
        yield c
    for en in 'bl':
        for mode in ('ser.raw 24 %s' % en, 'ser.vec - %s' % en, 'ser.vec a1a2a3a4a5a6a7a8a9aa %s' % en):
            yield [mode, 'ser.self 0 0 0', 'ser.int 4 16909060', 'ser.self 0 4 1', 'ser.self 2 4 1', 'ser.self 0 0 0', 'ser.self 12 0 0', 'ser.self 0 12 0', 'ser.self 0 12 1',
                   'ser.self 23 1 1', 'ser.self 24 0 1', 'ser.self 0 1 0', 'ser.self 1 24 1', 'ser.self 0 25 0', 'ser.bytes 0b0c', 'ser.self 20 5 0', 'ser.self 20 5 1',
                   'ser.view %s' % en, 'des.int 4', 'des.int 4', 'des.bytes 4', 'des.skip 12', 'des.int 2']
    yield ['ser.self 0 0 0', 'ser.vec 0102 b', 'ser.self 0 1 1', 'ser.self 1 0 1', 'ser.int 2 772', 'ser.self 0 2 2', 'ser.self 00 2 1', 'ser.self 0 65536 1', 'ser.self 3 0 0',
           'ser.self 1 1 1', 'ser.self 0 3 0', 'ser.self 0 3 1']


def gen_alias_random(rng, ops):
    k = rng.randrange(3)
    if k == 0:
        x = rbytes(rng, rng.randrange(1, 40))
        t = bytearray(_b64.b64encode(x))
        if rng.random() < 0.3: t[rng.randrange(len(t))] = rng.randrange(256)
        pre = rbytes(rng, rng.randrange(0, 5)); dst = rng.randrange(0, len(pre) + 1)
        cap = rng.choice([len(x), len(x) + 1, max(len(x) - 1, 0), len(t)])
        room = max(0, dst + cap - len(pre) - len(t))
        ops.append('b64.decip %s %s %s %d %d' % (hx(pre), hx(t), hx(rbytes(rng, room + rng.randrange(3))), dst, cap))
    else:
        init = rbytes(rng, rng.randrange(0, 6))
        raw = rng.random() < 0.3
        ops.append(('ser.raw %d %s' % (rng.randrange(8, 40), rng.choice('bl'))) if raw else ('ser.vec %s %s' % (hx(init), rng.choice('bl'))))
        pos = 0
        for _ in range(rng.randrange(2, 7)):
            if pos == 0 or rng.random() < 0.4:
                b = rbytes(rng, rng.randrange(1, 6)); ops.append('ser.bytes %s' % hx(b)); pos += len(b)      # raw mode may refuse: then off + k > pos is a bad-op on both sides
            else:
                off = rng.randrange(0, pos + 1); kk = rng.randrange(0, pos - off + 1)
                r = rng.choice([1, 1, 1, 0])
                ops.append('ser.self %d %d %d' % (off, kk, r))
                if r == 1 and not raw: pos += kk


# ------------------------------------------------------------------------------------------ long inputs (round 9, lesson h)
# Every loop of the anchored files that accumulates into a fixed-width variable is driven with inputs long enough to make an
# accumulator of the next narrower plausible width wrap: 2^16±k, 2^17±k (131070..131080), 2^20 and 2^24 bytes of saturating
# values (all 0xFF = all 0xFFFF words, alternating ff00 / 00ff, fffe) and of pseudo-random data, in compact form
# (`rep:<pattern>:<n>` / `prng:<seed>:<n>`, expanded on both sides). Deterministic apart from the prng seeds; BOTH tiers.
LONG_EDGE = [65534, 65535, 65536, 65537, 65538] + list(range(131070, 131081))
LONG_FILLS = ['rep:ff:%d', 'rep:ff00:%d', 'rep:00ff:%d', 'rep:fffe:%d', 'rep:80:%d']


def _rep_bytes(pat, n):
    return (pat * (n // len(pat) + 1))[:n]


def _prng_bytes(seed, n):
    out = bytearray(n); x = seed
    for i in range(n):
        x = (x * 1664525 + 1013904223) & 0xffffffff
        out[i] = x >> 24
    return bytes(out)


def gen_long(rng, tier):
    sd = rng.randrange(1, 1 << 32)
    # ---- checksums and CRCs: every edge length x every saturating fill and random data; 2^20 all fills; 2^24 ff and random
    for n in LONG_EDGE:
        ops = []
        for f in LONG_FILLS + ['prng:%d:%%d' % sd]:
            seg = f % n
            ops += ['long sum16 ' + seg, 'long sum8 ' + seg]
            if f.startswith(('rep:ff:', 'prng', 'rep:ff00')):
                ops += ['long crc16 65535 ' + seg, 'long crc32 4294967295 ' + seg]
                if f.startswith('rep:'):
                    ops[-1] += ' ref=%d' % (zlib.crc32(_rep_bytes(bytes.fromhex(f.split(':')[1]), n)) & 0xffffffff)
        ops += ['long sum16 rep:ff:%d rep:0001:2' % n, 'long sum16 rep:00:1 rep:ff:%d' % n, 'long sum16 prng:%d:%d rep:ff:%d' % (sd, n, n)]
        ops += ['long crc32.chain 4294967295 %d rep:ff:%d prng:%d:9' % (n // 2, n, sd), 'long crc16.chain 65535 65536 prng:%d:%d' % (sd, n),
                'long crc32.chain 0 %d prng:%d:%d' % (n - 1, sd, n), 'long crc16.chain 0 1 rep:ff:%d' % n]
        yield ops
    for n in (1 << 18, 1 << 20):
        ops = []
        for f in LONG_FILLS + ['prng:%d:%%d' % sd]:
            seg = f % n
            ops += ['long sum16 ' + seg, 'long sum8 ' + seg, 'long sum16 %s rep:ff:1' % seg]
        ops += ['long crc16 65535 rep:ff:%d' % n, 'long crc32 4294967295 rep:ff:%d ref=%d' % (n, zlib.crc32(b'\xff' * n) & 0xffffffff),
                'long crc16 0 prng:%d:%d' % (sd, n), 'long crc32 0 prng:%d:%d' % (sd, n),
                'long crc32.chain 4294967295 65536 prng:%d:%d' % (sd, n), 'long crc16.chain 65535 %d prng:%d:%d' % (n - 1, sd, n)]
        yield ops
    n = 1 << 24
    yield ['long sum16 rep:ff:%d' % n, 'long sum16 rep:ff:%d' % (n + 3), 'long sum16 prng:%d:%d' % (sd, n), 'long sum16 rep:ff00:%d' % n]
    yield ['long sum8 rep:ff:%d' % n, 'long sum8 prng:%d:%d' % (sd, n + 1),
           'long crc32 4294967295 rep:ff:%d ref=%d' % (n, zlib.crc32(b'\xff' * n) & 0xffffffff), 'long crc16 65535 rep:ff:%d' % n]
    yield ['long crc32 4294967295 prng:%d:%d' % (sd, n), 'long crc16 65535 prng:%d:%d' % (sd, n),
           'long crc32.chain 4294967295 %d prng:%d:%d' % (1 << 20, sd, n), 'long crc16.chain 65535 %d rep:ff00:%d' % (n - 1, n)]
    # ---- MD5: one update and split updates around 2^16 / 2^17 / 2^20 / 2^24 (expected digest: the model up to 140000 bytes,
    #      python hashlib beyond; the cuts do not matter by C19_md5_split)
    pat = bytes((i * 167 + 13) & 0xff for i in range(251))
    for n in (65535, 65536, 65537, 131071, 131072, 131073):
        x = _rep_bytes(pat, n); h = hashlib.md5(x).hexdigest()
        seg = 'rep:%s:%d' % (pat.hex(), n)
        yield ['long md5 - %s ref=%s' % (seg, h), 'long md5 65536 %s ref=%s' % (seg, h) if n >= 65536 else 'long md5 65534 %s ref=%s' % (seg, h),
               'long md5 1,%d,%d %s ref=%s' % (n // 2, n - 1, seg, h), 'long md5 - rep:ff:%d ref=%s' % (n, hashlib.md5(b'\xff' * n).hexdigest()),
               'long md5 64,65535 prng:%d:%d' % (sd, n)]
    for n in (1 << 20, 1 << 24):
        x = _rep_bytes(pat, n); h = hashlib.md5(x).hexdigest()
        seg = 'rep:%s:%d' % (pat.hex(), n)
        yield ['long md5 - %s ref=%s' % (seg, h), 'long md5 65536,%d %s ref=%s' % (n - 1, seg, h), 'long md5 65535,65537,%d %s ref=%s' % (1 << 20, seg, h),
               'long md5 %d rep:ff:%d ref=%s' % (n // 2, n + 1, hashlib.md5(b'\xff' * (n + 1)).hexdigest())]
    # ---- Base64, hex strings, URL percent-encoding, serializer raw blocks: lengths around 2^16 / 2^17 and 2^20
    for n in (65535, 65536, 65537, 131071, 131072, 131073, 131075, 1 << 20):
        ops = []
        for seg in ('rep:ff:%d' % n, 'prng:%d:%d' % (sd, n), 'rep:00fb:%d' % n):
            ops += ['long b64 ' + seg, 'long url %d %s' % (n & 1, seg), 'long hexdec ' + seg]
            if n <= 131075 or seg.startswith('prng'):
                ops += ['long ser %s %s' % ('bl'[n & 1], seg), 'long serraw %s %d %s' % ('lb'[n & 1], rng.choice([0, 3, 4, 8]), seg)]
        enc_chars = (4 * n + 2) // 3
        ops += ['long b64bad %d rep:ff:%d' % (pos, n) for pos in (0, enc_chars - 1, 65536, rng.randrange(enc_chars))]
        ops += ['long url 1 rep:2541252f:%d' % n, 'long url 0 rep:20:%d' % n]
        yield ops
    yield ['long hexenc %d %s' % (u, seg) for u in (0, 1) for seg in ('rep:ff:65535', 'prng:%d:65535' % sd, 'rep:0a:65534', 'rep:a0:1', 'prng:%d:32768' % sd)]

def gen(rng, tier):
    n = 500 if tier == 'quick' else 6000
    # malformed stream: both sides answer bad-op
    yield ['b64.dec zz 3', 'b64.dec 41414141', 'si.dump 18446744073709551616 10', 'si.parse 0', 'frob 1', 'ser.int 2 5',
           'des.int 1', 'aes.enc 00 00', 'crc16 00 65536', 'crc32 00 4294967296', 'hex.enc 00 2 -', 'url.enc 00 2',
           'ser.rt b i3:1', 'ser.rt b i1:256', 'ser.raw 4 x', 'ser.raw 4 b', 'ser.int 3 1', 'ser.int 1 256', 'md5 0g']
    # directed: the three confirmed defects of DESIGN §7-11 and their neighbours
    yield ['b64.dec 51513d3d 1', 'b64.dec 5155493d 2', 'b64.dec 51554a44 3', 'b64.dec 51513d3d 0', 'b64.dec 51513d3d 2']
    yield ['b64.dec 80414141 3', 'b64.dec 41ff4141 3', 'b64.decvec 414141c0', 'b64.dec 4141417f 3']
    yield ['si.parse 8080808080808080808000', 'si.parse 80808080808080808080', 'si.parse 8080808080808080808080',
           'si.parse ffffffffffffffffff7f', 'si.parse ffffffffffffffffffff7f', 'si.parse 808080808080808080808000']
    yield ['hex.rt - 0 -', 'hex.rt - 0 20', 'hex.decvec - -', 'hex.decvec 2020 -', 'hex.decvec 616263 -', 'hex.decvec 61626320 -']
    # standard test vectors (RFC 1321 suite, FIPS-197 C.1, CRC check values) — tests, labelled as such
    yield ['md5 -', 'md5 61', 'md5 616263', 'md5 6d65737361676520646967657374',
           'aes.enc 000102030405060708090a0b0c0d0e0f 00112233445566778899aabbccddeeff',
           'aes.dec 000102030405060708090a0b0c0d0e0f 69c4e0d86a7b0430d8cdb78070b4c55a',
           'crc32 313233343536373839 4294967295', 'crc16 313233343536373839 65535']
    for c in gen_structured(tier):
        yield c
    for c in gen_own_output(tier):
        yield c
    for c in gen_placement(tier):
        yield c
    for c in gen_width(tier):
        yield c
    for c in gen_laws(tier):
        yield c
    for c in gen_state_derived(tier):
        yield c
    for c in gen_alias(tier):
        yield c
    for c in gen_long(rng, tier):
        yield c
    vals = si_values(rng)
    if tier == 'thorough':
        # exhaustive small scope: every byte value at every position of two valid quads, exact capacity
        for pos in range(8):
            ops = []
            for b in range(256):
                s = bytearray(b'QUJDREVG'); s[pos] = b
                dl = 6 - (1 if s[-1:] == b'=' else 0) - (1 if s[-2:-1] == b'=' else 0)
                ops.append('b64.dec %s %d' % (hx(s), dl))
                if len(ops) == 32: yield ops; ops = []
            if ops: yield ops
        # every boundary value through dump with exact / short capacity, and the round trip
        for v in vals:
            need = 1
            while need < 10 and v > SI_TABLE_MAX[need - 1]: need += 1
            yield ['si.rt %d' % v, 'si.dump %d %d' % (v, need), 'si.dump %d %d' % (v, need - 1), 'si.dump %d 0' % v]
        # every input length 0..70 for the encoders / digests
        for ln in range(0, 71):
            x = rbytes(rng, ln)
            yield ['b64.rt %s' % hx(x), 'hex.rt %s 0 -' % hx(x), 'hex.rt %s 1 3a' % hx(x), 'url.rt %s 0' % hx(x), 'url.rt %s 1' % hx(x),
                   'crc32 %s 4294967295 ref=%d' % (hx(x), zlib.crc32(x) & 0xffffffff), 'crc16 %s 65535' % hx(x),
                   'sum8 %s' % hx(x), 'sum16 %s' % hx(x), 'md5 %s ref=%s' % (hx(x), hashlib.md5(x).hexdigest())]
        # every single byte through the URL codec and the hex codec
        for b0 in range(0, 256, 16):
            yield ['url.rt %02x 0' % b for b in range(b0, b0 + 16)] + ['url.enc %02x 1' % b for b in range(b0, b0 + 16)] + \
                  ['hex.rt %02x 1 -' % b for b in range(b0, b0 + 16)] + ['url.dec 25%02x41' % b for b in range(b0, b0 + 16)]
    gens = [gen_b64, gen_b64, lambda r, o: gen_si(r, o, vals), gen_hex, gen_ser, gen_ser, gen_crc, gen_url, gen_md5, gen_aes, gen_misc, gen_hist, gen_alias_random]
    for _ in range(n):
        ops = []
        for _ in range(rng.choice([1, 2, 4, 8])):
            rng.choice(gens)(rng, ops)
        # a third of the cases run at a random memory placement (one per op)
        if rng.random() < 0.34:
            ops = [o + ' @%s%d%d' % (rng.choice('RL'), rng.randrange(8), rng.randrange(8)) for o in ops]
        yield ops


NT_TAGS = ('b64-cap-exact', 'b64-cap-short', 'b64-invalid-char', 'b64-hi-byte', 'b64-inner-pad', 'b64-encbuf-exact',
           'si-parse-cont9', 'si-parse-cont1', '-unterminated', 'si-dump-', 'hex-decbuf-exc', 'hex-decvec-', 'ser-rt-',
           'des-int', 'ser-int', 'url-dec-exc', 'url-dec-escapes', 'md5-pieces2', 'md5-pieces3', 'md5-pieces4', 'md5-pieces5',
           'md5-pieces6', 'md5-pieces7', 'md5-pieces8', 'md5-pieces9', 'md5-len-mod64-ge56',
           'b64-cstr', 'b64-append', 'des-check-', 'ser-big', 'crc-chain-', 'url-host-', 'url-mkhost-', 'md5-seq-', 'aes-seq-',
           'aes-hist-', 'aes-rekey-', 'url-host2-', 'crc-seq-', 'si-buf-', 'md5-two-', 'b64-dec2', 'ser-view', 'long-', 'aes-unkeyed', 'b64-ip-', 'ser-self-')


def nontrivial(ops, model_lines):
    tags = ' '.join(l for l in model_lines if l.startswith('B '))
    if any(t in tags for t in NT_TAGS): return 1
    if any(o.startswith(('aes.', 'crc', 'sum', 'si.rt', 'b64.rt', 'url.rt', 'hex.rt')) for o in ops): return 1
    return None


def fingerprint(ops, d):
    import hashlib as h, re
    kinds = ' '.join(o.split()[0] for o in ops)
    what = re.sub(r'[0-9a-f]{6,}', 'X', (d[1] if d else '')[:60])
    return h.sha1((kinds + '|' + what).encode()).hexdigest()[:12]
