"""Pure-Python AES-128 (FIPS-197) and MD5 internals (RFC 1321) for the C19 generator.

Used to DERIVE inputs from the state an object caches (round keys in both linearisations, MD5 chaining state and
buffer contents) and as a second, supporting reference (`ref=` values). Written from the standards, independent of
both the Lean Spec and the C++ code: the S-box is computed from the GF(2^8) inverse and the affine map, the MD5
constants from the sine function."""
import math, struct


# ---------------------------------------------------------------------------------------------- AES-128
def _gmul(a, b):
    r = 0
    for _ in range(8):
        if b & 1: r ^= a
        hi = a & 0x80
        a = (a << 1) & 0xff
        if hi: a ^= 0x1b
        b >>= 1
    return r


def _make_sbox():
    sbox = [0] * 256
    for x in range(256):
        inv = 0
        if x:
            for y in range(1, 256):
                if _gmul(x, y) == 1: inv = y; break
        s = inv
        for k in range(1, 5):
            s ^= ((inv << k) | (inv >> (8 - k))) & 0xff
        sbox[x] = s ^ 0x63
    return sbox


SBOX = _make_sbox()
INV_SBOX = [0] * 256
for _i, _v in enumerate(SBOX): INV_SBOX[_v] = _i


def aes_round_keys(key):
    """the 11 round keys in FIPS-197 order (16 bytes each: words w[4i] .. w[4i+3])"""
    assert len(key) == 16
    w = [list(key[4 * i:4 * i + 4]) for i in range(4)]
    rc = 1
    for i in range(4, 44):
        t = list(w[i - 1])
        if i % 4 == 0:
            t = t[1:] + t[:1]
            t = [SBOX[b] for b in t]
            t[0] ^= rc
            rc = _gmul(rc, 2)
        w.append([a ^ b for a, b in zip(w[i - 4], t)])
    return [bytes(sum(w[4 * r:4 * r + 4], [])) for r in range(11)]


def transpose16(b):
    """4x4 transpose of 16 bytes: out[4r+c] = b[r+4c] (what `w[i]` of aes.cpp looks like in memory)"""
    return bytes(b[r + 4 * c] for r in range(4) for c in range(4))


def _sub(s, box): return [box[b] for b in s]


def _shift(s):      # state in column order: s[4c+r]
    return [s[4 * ((c + r) % 4) + r] for c in range(4) for r in range(4)]


def _inv_shift(s):
    return [s[4 * ((c - r) % 4) + r] for c in range(4) for r in range(4)]


def _mix(s, m):
    out = []
    for c in range(4):
        col = s[4 * c:4 * c + 4]
        for r in range(4):
            out.append(_gmul(m[0], col[r]) ^ _gmul(m[1], col[(r + 1) % 4]) ^ _gmul(m[2], col[(r + 2) % 4]) ^ _gmul(m[3], col[(r + 3) % 4]))
    return out


def aes_encrypt(key, block):
    rk = aes_round_keys(key)
    s = [a ^ b for a, b in zip(block, rk[0])]
    for r in range(1, 11):
        s = _shift(_sub(s, SBOX))
        if r != 10: s = _mix(s, (2, 3, 1, 1))
        s = [a ^ b for a, b in zip(s, rk[r])]
    return bytes(s)


def aes_decrypt(key, block):
    rk = aes_round_keys(key)
    s = [a ^ b for a, b in zip(block, rk[10])]
    for r in range(9, -1, -1):
        s = _sub(_inv_shift(s), INV_SBOX)
        s = [a ^ b for a, b in zip(s, rk[r])]
        if r != 0: s = _mix(s, (0x0e, 0x0b, 0x0d, 0x09))
    return bytes(s)


assert aes_encrypt(bytes(range(16)), bytes.fromhex('00112233445566778899aabbccddeeff')).hex() == '69c4e0d86a7b0430d8cdb78070b4c55a'
assert aes_decrypt(bytes(range(16)), bytes.fromhex('69c4e0d86a7b0430d8cdb78070b4c55a')).hex() == '00112233445566778899aabbccddeeff'


# ---------------------------------------------------------------------------------------------- MD5 internals
_S = [7, 12, 17, 22] * 4 + [5, 9, 14, 20] * 4 + [4, 11, 16, 23] * 4 + [6, 10, 15, 21] * 4
_T = [int(abs(math.sin(i + 1)) * 2 ** 32) & 0xffffffff for i in range(64)]


def _md5_compress(state, block):
    a, b, c, d = state
    x = struct.unpack('<16I', block)
    for i in range(64):
        if i < 16: f = (b & c) | (~b & d); g = i
        elif i < 32: f = (d & b) | (~d & c); g = (5 * i + 1) % 16
        elif i < 48: f = b ^ c ^ d; g = (3 * i + 5) % 16
        else: f = c ^ (b | ~d); g = (7 * i) % 16
        f = (f + a + _T[i] + x[g]) & 0xffffffff
        a, d, c = d, c, b
        b = (b + ((f << _S[i]) | (f >> (32 - _S[i])))) & 0xffffffff
    return [(s + v) & 0xffffffff for s, v in zip(state, (a, b, c, d))]


class Md5Sim:
    """what an MD5 object holds after a sequence of updates, following md5.cpp's buffering: `state` (chaining value),
    `buffer` (64 bytes: the pending tail at 0..index, older bytes behind it), `count` (bytes fed)"""

    def __init__(self):
        self.state = [0x67452301, 0xEFCDAB89, 0x98BADCFE, 0x10325476]
        self.buffer = bytearray(64)
        self.count = 0

    def update(self, data):
        index = self.count % 64
        partlen = 64 - index
        self.count += len(data)
        i = 0
        if len(data) >= partlen:
            self.buffer[index:64] = data[:partlen]
            self.state = _md5_compress(self.state, bytes(self.buffer))
            i = partlen
            while i + 64 <= len(data):
                self.state = _md5_compress(self.state, data[i:i + 64])
                i += 64
            index = 0
        self.buffer[index:index + len(data) - i] = data[i:]
        return self

    def index(self): return self.count % 64
    def state_bytes(self): return struct.pack('<4I', *self.state)
    def pending(self): return bytes(self.buffer[:self.index()])
    def padding(self):
        idx = self.index()
        return b'\x80' + bytes((56 - idx if idx < 56 else 120 - idx) - 1)
    def length_block(self): return struct.pack('<Q', (self.count * 8) & (2 ** 64 - 1))

    def digest(self):
        c = Md5Sim(); c.state = list(self.state); c.buffer = bytearray(self.buffer); c.count = self.count
        pad, ln = self.padding(), self.length_block()
        c.update(pad); c.update(ln)
        return c.state_bytes()


import hashlib as _h
for _n in (0, 1, 55, 56, 63, 64, 65, 200):
    _x = bytes((i * 7 + _n) & 0xff for i in range(_n))
    assert Md5Sim().update(_x[:_n // 3]).update(_x[_n // 3:]).digest() == _h.md5(_x).digest()


# ---------------------------------------------------------------------------------------------- CRC-16/CCITT (bitwise)
def crc16(data, seed):
    crc = seed
    for b in data:
        crc ^= b << 8
        for _ in range(8):
            crc = ((crc << 1) ^ 0x1021) & 0xffff if crc & 0x8000 else (crc << 1) & 0xffff
    return crc


assert crc16(b'123456789', 0xffff) == 0x29b1
