// C20 harness: real WeeklyAlarm / OneshotAlarm / WorkdayAlarm (+ WorkdayCalendar) on a real event
// loop under a virtual wall clock and a virtual monotonic clock (harness/vtime.h: the two can be
// skewed independently).  The protected calculateNextLocalTimeSec is reached through probe
// subclasses.  One op per loop pass; output format = lean/Driver/C20.lean.
#include "vh.h"
// gettimeofday() with a scripted failure: harness/vtime.h defines the virtual-clock gettimeofday; it is compiled here under another
// name and wrapped, so that the op file decides the kernel's answer (op `gtod 0|1`, callback act `gt0|gt1`)
#include <sys/time.h>
#include <cerrno>
#define gettimeofday vt_gettimeofday_virtual
#define clock_gettime vt_clock_gettime_virtual
#define time vt_time_virtual
#include "vtime.h"
#undef gettimeofday
#undef clock_gettime
#undef time
static volatile bool gtod_fail = false;
// the clock MOVES while one library call runs (op `skew <sub_us> <inc_us> <step_ms>`): the first gettimeofday() of a library call
// answers the virtual wall clock + sub_us (below the millisecond), the k-th later one first + step_ms + k*inc_us - time passing,
// a second boundary, an NTP step either way between two looks at the clock.  A library call starts at every API call the harness
// makes (ops, callback-script acts), after every user callback, and whenever the code looked at the monotonic clock (arming the
// loop timer ends an activeTimer()).  The harness's own remainSeconds() for the state lines reads the first value (gt_display).
static volatile int64_t skew_sub_us = 0, skew_inc_us = 0, skew_step_us = 0;
static volatile bool skew_on = false, gt_display = false, later_fail = false;
static volatile int gt_reads = 0;
static inline void call_boundary() { gt_reads = 0; }
// one look at the wall clock (any source: gettimeofday, time, CLOCK_REALTIME): microseconds as the plan says
static int64_t wall_reading_us(int64_t us) {
    if (!vt::enabled) return us;
    int k = 0;
    if (!gt_display) { k = gt_reads; gt_reads = k + 1; }
    if (!skew_on) return us;
    us += skew_sub_us;
    if (k > 0) us += skew_step_us + skew_inc_us * k;
    return us < 0 ? 0 : us;
}
extern "C" int gettimeofday(struct timeval *tv, void *tz) {
    if (gtod_fail) { errno = EFAULT; return -1; }
    // op `gtlater 1`: only the FIRST gettimeofday() of a library call succeeds, every later one fails (the code makes one)
    if (later_fail && !gt_display && gt_reads > 0) { gt_reads = gt_reads + 1; errno = EFAULT; return -1; }
    int r = vt_gettimeofday_virtual(tv, tz);
    if (r == 0 && tv) {
        int64_t us = wall_reading_us((int64_t)tv->tv_sec * 1000000LL + tv->tv_usec);
        tv->tv_sec = us / 1000000LL; tv->tv_usec = us % 1000000LL;
    }
    return r;
}
extern "C" int clock_gettime(clockid_t id, struct timespec *ts) {
    if (id == CLOCK_MONOTONIC || id == CLOCK_MONOTONIC_RAW || id == CLOCK_MONOTONIC_COARSE || id == CLOCK_BOOTTIME) call_boundary();
    int r = vt_clock_gettime_virtual(id, ts);
    if (r == 0 && ts && (id == CLOCK_REALTIME || id == CLOCK_REALTIME_COARSE)) {
        int64_t us = wall_reading_us((int64_t)ts->tv_sec * 1000000LL + ts->tv_nsec / 1000);
        ts->tv_sec = us / 1000000LL; ts->tv_nsec = (us % 1000000LL) * 1000;
    }
    return r;
}
extern "C" time_t time(time_t *t) {
    time_t v = (time_t)(wall_reading_us((int64_t)vt_time_virtual(nullptr) * 1000000LL + (vt::wall_ns / 1000) % 1000000LL) / 1000000LL);
    if (t) *t = v;
    return v;
}
#include "loopdrv.h"
#include <unistd.h>
#include <algorithm>
#include <map>
#include <memory>
#include <tbox/event/loop.h>
#include <tbox/base/log_output.h>
#include <tbox/alarm/weekly_alarm.h>
#include <tbox/alarm/oneshot_alarm.h>
#include <tbox/alarm/workday_alarm.h>
#include <tbox/alarm/workday_calendar.h>
#include <tbox/alarm/cron_alarm.h>
#include <tbox/alarm/3rd-party/ccronexpr.h>
#include <cstring>
#include <cstdlib>

using namespace tbox;
using namespace tbox::alarm;

struct WeeklyProbe : WeeklyAlarm {
    using WeeklyAlarm::WeeklyAlarm;
    bool calc(uint32_t t, uint32_t &r) { return calculateNextLocalTimeSec(t, r); }
};
struct OneshotProbe : OneshotAlarm {
    using OneshotAlarm::OneshotAlarm;
    bool calc(uint32_t t, uint32_t &r) { return calculateNextLocalTimeSec(t, r); }
};
struct CronProbe : CronAlarm {
    using CronAlarm::CronAlarm;
    bool calc(uint32_t t, uint32_t &r) { return calculateNextLocalTimeSec(t, r); }
};

struct WorkdayProbe : WorkdayAlarm {
    using WorkdayAlarm::WorkdayAlarm;
    bool calc(uint32_t t, uint32_t &r) { return calculateNextLocalTimeSec(t, r); }
};

static const int64_t kWall0 = 1700000000000LL;
static const uint64_t kMaxWallMs = 8589934591999ULL;   // 2^33 s - 1 ms: tv_sec beyond 2^32 is truncated into the alarm's uint32_t
static const int64_t kTzMax = 35791394;                 // largest minutes value whose *60 fits an int (setTimezone)
static const int64_t kSodMax = 2147483647;
static const size_t kSlots = 4;
struct Slot { char kind = 0; WeeklyProbe *wk = nullptr; OneshotProbe *os = nullptr; WorkdayProbe *wd = nullptr; CronProbe *cr = nullptr;
              Alarm *a() const { return kind == 'k' ? (Alarm*)wk : kind == 'o' ? (Alarm*)os : kind == 'd' ? (Alarm*)wd : kind == 'c' ? (Alarm*)cr : nullptr; } };
static Slot slots[kSlots];
static std::unique_ptr<WorkdayCalendar> cal;
static event::Loop *loop = nullptr;

// kNone and kInited cannot be told apart through the API (only isEnabled()): the harness tracks N / I
// from the results of the calls it made itself
static char st[kSlots];   // 'N' or 'I' while not enabled
static std::string showAt(size_t i) {
    Alarm *a = slots[i].a();
    if (!a) return "-";
    if (a->isEnabled()) { gt_display = true; uint32_t r = a->remainSeconds(); gt_display = false; return "R" + std::to_string(r); }
    return std::string(1, st[i]);
}
static std::string state_line(int ret) {
    std::string s = "P ret=" + std::to_string(ret ? 1 : 0);
    for (size_t i = 0; i < kSlots; ++i) s += " " + showAt(i);
    return s;
}

// callback scripts: API calls made from inside the callback
struct Act { std::string kind; size_t j = 0; uint64_t n = 0; int64_t iv = 0; std::string mask; bool wd = false; std::map<int, bool> sp; std::string expr; };
static std::vector<Act> scripts[kSlots];
static int pass_callbacks = 0;
static void run_act(const Act &a);

// callback body: report (in the order the loop really serves), then run the script; a callback storm
// inside one pass (a re-arm with zero delay served again and again by handleExpiredTimers) would never
// return to the driver: report and stop the process
static void on_alarm(size_t i) {
    std::cout << "F " << i << " " << showAt(i) << "\n";
    if (++pass_callbacks > 64) {
        std::cout << "F-STORM more than 64 callbacks in one pass" << std::endl;
        _exit(3);
    }
    std::vector<Act> sc = scripts[i];
    for (auto &a : sc) run_act(a);
    call_boundary();
}

// the user callback: a closure too large for std::function's inline buffer (so it lives on the heap) whose
// captures are read AFTER the script ran — if cleanup()/setCallback() from inside the callback destroyed the
// executing closure, ASan sees the read
static std::function<void()> make_cb(size_t i) {
    std::string tag = "callback-of-alarm-slot-" + std::to_string(i) + "-................................";
    size_t len = tag.size();
    return [i, tag, len] {
        on_alarm(i);
        if (tag.size() != len || tag[0] != 'c') { std::cout << "CLOSURE-CORRUPTED" << std::endl; _exit(4); }
    };
}

static bool do_init(size_t i, int64_t sod, const std::string &mask, bool wd) {
    Slot &s = slots[i];
    bool ok = s.kind == 'k' ? s.wk->initialize((int)sod, mask) : s.kind == 'o' ? s.os->initialize((int)sod) :
              s.kind == 'd' ? s.wd->initialize((int)sod, cal.get(), wd) : false;     // cron slots have their own op
    if (ok) st[i] = 'I';
    return ok;
}

static void reset_all() {
    for (size_t i = 0; i < kSlots; ++i) {
        Alarm *a = slots[i].a();
        if (a) { a->disable(); delete a; }
        slots[i] = Slot(); st[i] = 'N'; scripts[i].clear();
    }
    cal.reset(new WorkdayCalendar());
    pass_callbacks = 0;
    gtod_fail = false;
    later_fail = false; skew_on = false; skew_sub_us = skew_inc_us = skew_step_us = 0; gt_reads = 0; gt_display = false;
    vt::set_wall_ms(kWall0);
}

// the user's side of the raw-pointer contract (workday_alarm.h): enable() of a workday alarm goes through its calendar
static bool enable_needs_dead_cal(size_t j) {
    return slots[j].kind == 'd' && !cal && slots[j].a() && !slots[j].a()->isEnabled() && st[j] == 'I';
}
static bool any_workday_enabled() {
    for (size_t i = 0; i < kSlots; ++i) if (slots[i].kind == 'd' && slots[i].a() && slots[i].a()->isEnabled()) return true;
    return false;
}

static void run_act(const Act &a) {
    call_boundary();
    if (a.kind == "gt") { gtod_fail = (a.n == 0); return; }
    if (a.kind == "cm") { if (cal) cal->updateWeekMask((uint8_t)a.n); return; }
    if (a.kind == "cs") { if (cal) cal->updateSpecialDays(a.sp); return; }
    Alarm *al = slots[a.j].a();
    if (!al) return;
    if (a.kind == "rf") al->refresh();
    else if (a.kind == "dis") al->disable();
    else if (a.kind == "en") { if (!enable_needs_dead_cal(a.j)) al->enable(); }
    else if (a.kind == "del") { delete al; slots[a.j] = Slot(); st[a.j] = 'N'; }
    else if (a.kind == "cl") { al->cleanup(); al->setCallback(make_cb(a.j)); st[a.j] = 'N'; }
    else if (a.kind == "in") do_init(a.j, a.iv, a.mask, a.wd);
    else if (a.kind == "tz") al->setTimezone((int)a.iv);
    else if (a.kind == "ic") { if (slots[a.j].kind == 'c' && slots[a.j].cr->initialize(a.expr)) st[a.j] = 'I'; }
}

static bool slot_of(const std::string &w, size_t &i) { uint64_t v; if (!vh::to_u64(w, v) || v >= kSlots) return false; i = v; return true; }
static bool bounded(const std::string &w, uint64_t hi, uint64_t &v) {
    if (w.size() > 18 || (w.size() > 1 && w[0] == '0')) return false;       // no leading zeros
    return vh::to_u64(w, v) && v <= hi;
}
static bool int_of(const std::string &w, int64_t lo, int64_t hi, int64_t &v) {
    uint64_t u; bool neg = !w.empty() && w[0] == '-';
    if (!bounded(neg ? w.substr(1) : w, 2147483648ULL, u)) return false;
    v = neg ? -(int64_t)u : (int64_t)u;
    return v >= lo && v <= hi;
}
static bool mask_of(const std::string &w, std::string &m) {
    if (w == "-") { m.clear(); return true; }
    if (w.size() > 9) return false;
    for (char c : w) if (c != '0' && c != '1' && c != 'x') return false;
    m = w; return true;
}
static bool bool_of(const std::string &w, bool &b) { if (w == "1") { b = true; return true; } if (w == "0") { b = false; return true; } return false; }
static bool specials_of(const std::string &w, std::map<int, bool> &m, char sep = ',') {
    m.clear();
    if (w == "-") return true;
    if (w.empty() || w.back() == sep) return false;
    std::stringstream ss(w); std::string item;
    while (std::getline(ss, item, sep)) {
        size_t p = item.find(':');
        if (p == std::string::npos || item.find(':', p + 1) != std::string::npos) return false;
        uint64_t d; bool b;
        if (!bounded(item.substr(0, p), 100000, d) || !bool_of(item.substr(p + 1), b)) return false;
        m.insert(std::make_pair((int)d, b));      // first entry of a day wins
    }
    return true;
}
// raw expression bytes of a cx / initx op: 1..300 bytes, each 1..127
static bool expr_of(const std::string &w, std::string &out) {
    std::vector<uint8_t> b;
    if (!vh::unhex(w, b) || b.empty() || b.size() > 300) return false;
    out.clear();
    for (uint8_t c : b) { if (c == 0 || c >= 128) return false; out.push_back((char)c); }
    return true;
}
static std::vector<std::string> split(const std::string &w, char sep) {   // keeps empty pieces, like String.splitOn
    std::vector<std::string> out; std::string cur;
    for (char c : w) { if (c == sep) { out.push_back(cur); cur.clear(); } else cur.push_back(c); }
    out.push_back(cur);
    return out;
}
static bool script_of(const std::string &w, size_t self, std::vector<Act> &out) {
    out.clear();
    if (w == "-") return true;
    auto items = split(w, ',');
    if (items.size() > 6) return false;
    for (auto &it : items) {
        Act a; uint64_t v;
        auto tail = [&](size_t n) { return it.substr(n); };
        if (it.compare(0, 2, "rf") == 0 && slot_of(tail(2), a.j)) a.kind = "rf";
        else if (it.compare(0, 3, "dis") == 0 && slot_of(tail(3), a.j)) a.kind = "dis";
        else if (it.compare(0, 2, "en") == 0 && slot_of(tail(2), a.j)) a.kind = "en";
        else if (it.compare(0, 3, "del") == 0 && slot_of(tail(3), a.j) && a.j != self) a.kind = "del";
        else if (it.compare(0, 2, "cm") == 0 && bounded(tail(2), 255, v)) { a.kind = "cm"; a.n = v; }
        else if (it.compare(0, 2, "cs") == 0 && specials_of(tail(2), a.sp, '+')) a.kind = "cs";
        else if (it == "gt0" || it == "gt1") { a.kind = "gt"; a.n = it == "gt1"; }
        else if (it.compare(0, 2, "cl") == 0 && slot_of(tail(2), a.j)) a.kind = "cl";
        else if (it.compare(0, 2, "tz") == 0) {          // tz<j>:<minutes>
            auto p = split(tail(2), ':');
            if (p.size() != 2 || !slot_of(p[0], a.j) || !int_of(p[1], -kTzMax, kTzMax, a.iv)) return false;
            a.kind = "tz";
        } else if (it.compare(0, 2, "ic") == 0) {        // ic<j>:<hex expression>
            auto p = split(tail(2), ':');
            if (p.size() != 2 || !slot_of(p[0], a.j) || !expr_of(p[1], a.expr)) return false;
            a.kind = "ic";
        } else if (it.compare(0, 2, "in") == 0) {        // in<j>:<sod>:<mask|->:<wd>
            auto p = split(tail(2), ':');
            if (p.size() != 4 || !slot_of(p[0], a.j) || !int_of(p[1], -kSodMax - 1, kSodMax, a.iv) || !mask_of(p[2], a.mask) || !bool_of(p[3], a.wd)) return false;
            a.kind = "in";
        }
        else return false;
        out.push_back(a);
    }
    return true;
}
// cron field of the supported shape: items (<= 6) of  range | range/num ;  range = * | num | num-num ; num <= 999, no leading zeros
static bool cron_num(const std::string &w) { uint64_t v; return bounded(w, 999, v); }
static bool cron_range(const std::string &w) {
    if (w == "*") return true;
    auto p = split(w, '-');
    if (p.size() == 1) return cron_num(p[0]);
    if (p.size() == 2) return cron_num(p[0]) && cron_num(p[1]);
    return false;
}
static bool cron_field(const std::string &w) {
    if (w.size() > 40) return false;
    auto items = split(w, ',');
    if (items.size() > 6) return false;
    for (auto &it : items) {
        auto p = split(it, '/');
        if (p.size() == 1) { if (!cron_range(p[0])) return false; }
        else if (p.size() == 2) { if (!cron_range(p[0]) || !cron_num(p[1])) return false; }
        else return false;
    }
    return true;
}
static uint64_t le_bits(const uint8_t *p, size_t n) { uint64_t v = 0; for (size_t i = 0; i < n; ++i) v |= (uint64_t)p[i] << (8 * i); return v; }
static std::string show_next(bool ok, uint32_t r) { return ok ? "P next=" + std::to_string(r) : std::string("P next=none"); }

int main(int argc, char **argv) {
    setenv("TZ", "VRF-3", 1); tzset();      // fixed system zone UTC+3, no DST (model: sysOffset)
    LogOutput_Disable();
    vt::enable(1000, kWall0);
    loop = event::Loop::New(argc > 1 ? argv[1] : "epoll");
    vh::LoopDriver drv(loop);
    reset_all();
    bool pending = false;
    drv.step = [&]() -> bool {
        if (pending) { std::cout << state_line(1) << "\n"; pending = false; }
        pass_callbacks = 0;
        std::string line;
        if (!std::getline(std::cin, line)) { reset_all(); cal.reset(); return false; }
        auto w = vh::words(line);
        if (w.empty()) return true;
        if (w[0] == "case") { reset_all(); std::cout << line << "\n"; return true; }
        const std::string &op = w[0];
        call_boundary();
        size_t i = 0; uint64_t sod = 0, t = 0, n = 0, n2 = 0; int64_t iv = 0; std::string m; bool b = false; std::map<int, bool> sp;
        if (op == "wk" && w.size() == 4 && bounded(w[1], 2147483647ULL, sod) && mask_of(w[2], m) && bounded(w[3], 4294967295ULL, t)) {
            WeeklyProbe p(loop);
            if (!p.initialize((int)sod, m)) { std::cout << "P init=0\n"; return true; }
            uint32_t r = 0; bool ok = p.calc((uint32_t)t, r);
            std::cout << show_next(ok, r) << "\n";
        } else if (op == "os" && w.size() == 3 && bounded(w[1], 2147483647ULL, sod) && bounded(w[2], 4294967295ULL, t)) {
            OneshotProbe p(loop);
            if (!p.initialize((int)sod)) { std::cout << "P init=0\n"; return true; }
            uint32_t r = 0; bool ok = p.calc((uint32_t)t, r);
            std::cout << show_next(ok, r) << "\n";
        } else if (op == "wd" && w.size() == 6 && bounded(w[1], 2147483647ULL, sod) && bool_of(w[2], b) && bounded(w[3], 255, n) &&
                   specials_of(w[4], sp) && bounded(w[5], 4294967295ULL, t)) {
            WorkdayCalendar c; c.updateWeekMask((uint8_t)n); c.updateSpecialDays(sp);
            WorkdayProbe p(loop);
            if (!p.initialize((int)sod, &c, b)) { std::cout << "P init=0\n"; return true; }
            uint32_t r = 0; bool ok = p.calc((uint32_t)t, r);
            std::cout << show_next(ok, r) << "\n";
        } else if (op == "cron" && w.size() == 8 && cron_field(w[1]) && cron_field(w[2]) && cron_field(w[3]) && cron_field(w[4]) &&
                   cron_field(w[5]) && cron_field(w[6]) && bounded(w[7], 4294967295ULL, t)) {
            CronProbe p(loop);
            if (!p.initialize(w[1] + " " + w[2] + " " + w[3] + " " + w[4] + " " + w[5] + " " + w[6])) { std::cout << "P init=0\n"; return true; }
            uint32_t r = 0; bool ok = p.calc((uint32_t)t, r);
            std::cout << show_next(ok, r) << "\n";     // false = no next instant (ccronexpr gave up): the alarm cannot be armed
        } else if (op == "cronen" && w.size() == 8 && cron_field(w[1]) && cron_field(w[2]) && cron_field(w[3]) && cron_field(w[4]) &&
                   cron_field(w[5]) && cron_field(w[6]) && bounded(w[7], 4294967295ULL, t)) {
            // the enable() path of a real CronAlarm at wall time t (zone 0): false when there is no next instant
            int64_t saved = vt::wall_ms();
            vt::set_wall_ms((int64_t)t * 1000);
            {
                CronProbe p(loop);
                p.setTimezone(0);
                if (!p.initialize(w[1] + " " + w[2] + " " + w[3] + " " + w[4] + " " + w[5] + " " + w[6])) std::cout << "P init=0\n";
                else {
                    bool ok = p.enable();
                    std::cout << "P en=" << (ok ? 1 : 0) << " enabled=" << (p.isEnabled() ? 1 : 0) << " rem=" << p.remainSeconds() << "\n";
                    p.disable();
                }
            }
            vt::set_wall_ms(saved);
        } else if (op == "cx" && w.size() == 4 && bounded(w[1], 7, n) && expr_of(w[2], m) && bounded(w[3], 4294967295ULL, t)) {
            // cron_parse_expr called directly on a heap block of exactly the string's size whose start is shifted by k bytes
            // (every alignment 0..7 of the start pointer; the terminating NUL is the last byte before the ASan redzone)
            size_t k = (size_t)n;
            char *blk = (char*)malloc(k + m.size() + 1);
            memset(blk, ' ', k); memcpy(blk + k, m.data(), m.size()); blk[k + m.size()] = 0;
            cron_expr ex; memset(&ex, 0, sizeof(ex));
            const char *err = nullptr;
            cron_parse_expr(blk + k, &ex, &err);
            CronProbe p(loop);
            bool ok = p.initialize(std::string(blk + k));
            free(blk);
            if (ok != (err == nullptr)) { std::cout << "P init-disagrees parse=" << (err ? err : "ok") << " initialize=" << ok << "\n"; return true; }
            if (!ok) { std::cout << "P init=0\n"; return true; }
            std::cout << "P init=1\n";
            std::cout << "M bits s=" << le_bits(ex.seconds, 8) << " m=" << le_bits(ex.minutes, 8) << " h=" << le_bits(ex.hours, 3)
                      << " dow=" << le_bits(ex.days_of_week, 1) << " dom=" << le_bits(ex.days_of_month, 4) << " mon=" << le_bits(ex.months, 2) << "\n";
            uint32_t r = 0; bool found = p.calc((uint32_t)t, r);
            std::cout << show_next(found, r) << "\n";
        } else if (op == "initx" && w.size() == 3 && slot_of(w[1], i) && expr_of(w[2], m) && slots[i].a()) {
            bool ok = slots[i].kind == 'c' && slots[i].cr->initialize(m);
            if (ok) st[i] = 'I';
            std::cout << state_line(ok) << "\n";
        } else if (op == "new" && (w.size() == 3 || w.size() == 4) && slot_of(w[1], i) && (w[2] == "wk" || w[2] == "os" || w[2] == "wd" || w[2] == "cr") && !slots[i].a() &&
                   (w.size() == 3 || script_of(w[3], i, scripts[i]))) {
            if (w.size() == 3) scripts[i].clear();
            Slot &s = slots[i];
            if (w[2] == "wk") { s.kind = 'k'; s.wk = new WeeklyProbe(loop); }
            else if (w[2] == "os") { s.kind = 'o'; s.os = new OneshotProbe(loop); }
            else if (w[2] == "wd") { s.kind = 'd'; s.wd = new WorkdayProbe(loop); }
            else { s.kind = 'c'; s.cr = new CronProbe(loop); }
            st[i] = 'N';
            s.a()->setCallback(make_cb(i));
            std::cout << state_line(1) << "\n";
        } else if (op == "init" && w.size() == 5 && slot_of(w[1], i) && int_of(w[2], -kSodMax - 1, kSodMax, iv) &&
                   mask_of(w[3], m) && bool_of(w[4], b) && slots[i].a()) {
            bool ok = do_init(i, iv, m, b);
            std::cout << state_line(ok) << "\n";
        } else if (op == "initc" && w.size() == 8 && slot_of(w[1], i) && cron_field(w[2]) && cron_field(w[3]) && cron_field(w[4]) && cron_field(w[5]) &&
                   cron_field(w[6]) && cron_field(w[7]) && slots[i].a()) {
            bool ok = slots[i].kind == 'c' && slots[i].cr->initialize(w[2] + " " + w[3] + " " + w[4] + " " + w[5] + " " + w[6] + " " + w[7]);
            if (ok) st[i] = 'I';
            std::cout << state_line(ok) << "\n";
        } else if (op == "tz" && w.size() == 3 && slot_of(w[1], i) && int_of(w[2], -kTzMax, kTzMax, iv) && slots[i].a()) {
            slots[i].a()->setTimezone((int)iv);
            std::cout << state_line(1) << "\n";
        } else if (op == "en" && w.size() == 2 && slot_of(w[1], i) && slots[i].a() && !enable_needs_dead_cal(i)) {
            bool ok = slots[i].a()->enable();
            std::cout << state_line(ok) << "\n";
        } else if (op == "dis" && w.size() == 2 && slot_of(w[1], i) && slots[i].a()) {
            bool ok = slots[i].a()->disable();
            std::cout << state_line(ok) << "\n";
        } else if (op == "rf" && w.size() == 2 && slot_of(w[1], i) && slots[i].a()) {
            slots[i].a()->refresh();
            std::cout << state_line(1) << "\n";
        } else if (op == "cl" && w.size() == 2 && slot_of(w[1], i) && slots[i].a()) {
            slots[i].a()->cleanup();                            // clears the callback too:
            slots[i].a()->setCallback(make_cb(i));    // re-install it (a silent expiry could not be traced)
            st[i] = 'N';
            std::cout << state_line(1) << "\n";
        } else if (op == "del" && w.size() == 2 && slot_of(w[1], i) && slots[i].a()) {
            delete slots[i].a();                   // as a user would: no disable() first
            slots[i] = Slot(); st[i] = 'N';
            std::cout << state_line(1) << "\n";
        } else if (op == "clx" && w.size() == 2 && slot_of(w[1], i) && slots[i].a()) {
            slots[i].a()->cleanup();                            // the callback stays cleared: later expiries are silent until `cb`
            st[i] = 'N';
            std::cout << state_line(1) << "\n";
        } else if (op == "cb" && w.size() == 2 && slot_of(w[1], i) && slots[i].a()) {
            slots[i].a()->setCallback(make_cb(i));
            std::cout << state_line(1) << "\n";
        } else if (op == "gtod" && w.size() == 2 && bool_of(w[1], b)) {
            gtod_fail = !b;
            std::cout << state_line(1) << "\n";
        } else if (op == "skew" && w.size() == 4 && bounded(w[1], 999, n) && bounded(w[2], 10000000, n2) && int_of(w[3], -4000000, 4000000, iv)) {
            // sub_us inc_us step_ms; "skew 0 0 0" = the clock stands still during a library call again
            skew_sub_us = (int64_t)n; skew_inc_us = (int64_t)n2; skew_step_us = iv * 1000;
            skew_on = (n != 0 || n2 != 0 || iv != 0);
            std::cout << state_line(1) << "\n";
        } else if (op == "gtlater" && w.size() == 2 && bool_of(w[1], b)) {
            later_fail = b;
            std::cout << state_line(1) << "\n";
        } else if (op == "caldel" && w.size() == 1 && cal && !any_workday_enabled()) {
            cal.reset();                                        // the calendar dies; alarms that are not enabled may outlive it
            std::cout << state_line(1) << "\n";
        } else if (op == "calmask" && w.size() == 2 && bounded(w[1], 255, n) && cal) {
            cal->updateWeekMask((uint8_t)n);
            std::cout << state_line(1) << "\n";
        } else if (op == "calsp" && w.size() == 2 && specials_of(w[1], sp) && cal) {
            cal->updateSpecialDays(sp);
            std::cout << state_line(1) << "\n";
        } else if (op == "adv" && w.size() == 2 && bounded(w[1], 40000000000ULL, n) && (uint64_t)vt::wall_ms() + n <= kMaxWallMs) {
            vt::advance_ms((int64_t)n); pending = true;
        } else if (op == "mono" && w.size() == 2 && bounded(w[1], 40000000000ULL, n)) {
            vt::advance_mono_ms((int64_t)n); pending = true;
        } else if (op == "wall" && w.size() == 2 && bounded(w[1], kMaxWallMs, n)) {
            vt::set_wall_ms((int64_t)n); pending = true;
        } else {
            std::cout << "bad-op\n";
        }
        return true;
    };
    drv.run();
    delete loop;
    return 0;
}
