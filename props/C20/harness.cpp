// C20 harness: real WeeklyAlarm / OneshotAlarm / WorkdayAlarm (+ WorkdayCalendar) on a real event
// loop under a virtual wall clock and a virtual monotonic clock (harness/vtime.h: the two can be
// skewed independently).  The protected calculateNextLocalTimeSec is reached through probe
// subclasses.  One op per loop pass; output format = lean/Driver/C20.lean.
#include "vh.h"
#include "vtime.h"
#include "loopdrv.h"
#include <unistd.h>
#include <algorithm>
#include <map>
#include <memory>
#include <tbox/event/loop.h>
#include <tbox/base/log_output.h>
#include <tbox/alarm/weekly_alarm.h>
#include <tbox/alarm/oneshot_alarm.h>
#include <tbox/alarm/workday_alarm.h>
#include <tbox/alarm/workday_calendar.h>

using namespace tbox;
using namespace tbox::alarm;

struct WeeklyProbe : WeeklyAlarm {
    using WeeklyAlarm::WeeklyAlarm;
    bool calc(uint32_t t, uint32_t &r) { return calculateNextLocalTimeSec(t, r); }
};
struct OneshotProbe : OneshotAlarm {
    using OneshotAlarm::OneshotAlarm;
    bool calc(uint32_t t, uint32_t &r) { return calculateNextLocalTimeSec(t, r); }
};
struct WorkdayProbe : WorkdayAlarm {
    using WorkdayAlarm::WorkdayAlarm;
    bool calc(uint32_t t, uint32_t &r) { return calculateNextLocalTimeSec(t, r); }
};

static const int64_t kWall0 = 1700000000000LL;
static const uint64_t kMaxWallMs = 4294967295999ULL;
static const size_t kSlots = 4;
struct Slot { char kind = 0; WeeklyProbe *wk = nullptr; OneshotProbe *os = nullptr; WorkdayProbe *wd = nullptr;
              Alarm *a() const { return kind == 'k' ? (Alarm*)wk : kind == 'o' ? (Alarm*)os : kind == 'd' ? (Alarm*)wd : nullptr; } };
static Slot slots[kSlots];
static std::unique_ptr<WorkdayCalendar> cal;
static event::Loop *loop = nullptr;
static std::vector<std::string> fired;

// kNone and kInited cannot be told apart through the API (only isEnabled()): the harness tracks N / I
// from the results of the calls it made itself
static char st[kSlots];   // 'N' or 'I' while not enabled
static std::string showAt(size_t i) {
    Alarm *a = slots[i].a();
    if (!a) return "-";
    if (a->isEnabled()) return "R" + std::to_string(a->remainSeconds());
    return std::string(1, st[i]);
}
static std::string state_line(int ret) {
    std::string s = "P ret=" + std::to_string(ret ? 1 : 0);
    for (size_t i = 0; i < kSlots; ++i) s += " " + showAt(i);
    return s;
}

// callback body: record; a callback storm inside one pass (a re-arm with zero delay served again and
// again by handleExpiredTimers) would never return to the driver: report and stop the process
static void on_alarm(size_t i) {
    fired.push_back("F " + std::to_string(i) + " " + showAt(i));
    if (fired.size() > 64) {
        for (auto &l : fired) std::cout << l << "\n";
        std::cout << "F-STORM more than 64 callbacks in one pass" << std::endl;
        _exit(3);
    }
}

static void reset_all() {
    for (size_t i = 0; i < kSlots; ++i) {
        Alarm *a = slots[i].a();
        if (a) { a->disable(); delete a; }
        slots[i] = Slot(); st[i] = 'N';
    }
    cal.reset(new WorkdayCalendar());
    fired.clear();
    vt::set_wall_ms(kWall0);
}

static bool slot_of(const std::string &w, size_t &i) { uint64_t v; if (!vh::to_u64(w, v) || v >= kSlots) return false; i = v; return true; }
static bool bounded(const std::string &w, uint64_t hi, uint64_t &v) { return w.size() <= 18 && vh::to_u64(w, v) && v <= hi; }
static bool mask_of(const std::string &w, std::string &m) {
    if (w == "-") { m.clear(); return true; }
    if (w.size() > 9) return false;
    for (char c : w) if (c != '0' && c != '1' && c != 'x') return false;
    m = w; return true;
}
static bool bool_of(const std::string &w, bool &b) { if (w == "1") { b = true; return true; } if (w == "0") { b = false; return true; } return false; }
static bool specials_of(const std::string &w, std::map<int, bool> &m) {
    m.clear();
    if (w == "-") return true;
    if (w.empty() || w.back() == ',') return false;
    std::stringstream ss(w); std::string item;
    while (std::getline(ss, item, ',')) {
        size_t p = item.find(':');
        if (p == std::string::npos || item.find(':', p + 1) != std::string::npos) return false;
        uint64_t d; bool b;
        if (!bounded(item.substr(0, p), 100000, d) || !bool_of(item.substr(p + 1), b)) return false;
        m.insert(std::make_pair((int)d, b));      // first entry of a day wins
    }
    return true;
}
static std::string show_next(bool ok, uint32_t r) { return ok ? "P next=" + std::to_string(r) : std::string("P next=none"); }

int main(int argc, char **argv) {
    setenv("TZ", "UTC", 1); tzset();
    LogOutput_Disable();
    vt::enable(1000, kWall0);
    loop = event::Loop::New(argc > 1 ? argv[1] : "epoll");
    vh::LoopDriver drv(loop);
    reset_all();
    bool pending = false;
    drv.step = [&]() -> bool {
        if (pending) {
            std::sort(fired.begin(), fired.end());
            for (auto &l : fired) std::cout << l << "\n";
            fired.clear();
            std::cout << state_line(1) << "\n";
            pending = false;
        } else if (!fired.empty()) {
            // a callback outside a clock op: never expected by the model (armed delays are >= 1 ms)
            for (auto &l : fired) std::cout << l << " UNEXPECTED\n";
            fired.clear();
        }
        std::string line;
        if (!std::getline(std::cin, line)) { reset_all(); cal.reset(); return false; }
        auto w = vh::words(line);
        if (w.empty()) return true;
        if (w[0] == "case") { reset_all(); std::cout << line << "\n"; return true; }
        const std::string &op = w[0];
        size_t i = 0; uint64_t sod = 0, t = 0, n = 0; int64_t iv = 0; std::string m; bool b = false; std::map<int, bool> sp;
        if (op == "wk" && w.size() == 4 && bounded(w[1], 200000, sod) && mask_of(w[2], m) && bounded(w[3], 4294967295ULL, t)) {
            WeeklyProbe p(loop);
            if (!p.initialize((int)sod, m)) { std::cout << "P init=0\n"; return true; }
            uint32_t r = 0; bool ok = p.calc((uint32_t)t, r);
            std::cout << show_next(ok, r) << "\n";
        } else if (op == "os" && w.size() == 3 && bounded(w[1], 200000, sod) && bounded(w[2], 4294967295ULL, t)) {
            OneshotProbe p(loop);
            if (!p.initialize((int)sod)) { std::cout << "P init=0\n"; return true; }
            uint32_t r = 0; bool ok = p.calc((uint32_t)t, r);
            std::cout << show_next(ok, r) << "\n";
        } else if (op == "wd" && w.size() == 6 && bounded(w[1], 200000, sod) && bool_of(w[2], b) && bounded(w[3], 255, n) &&
                   specials_of(w[4], sp) && bounded(w[5], 4294967295ULL, t)) {
            WorkdayCalendar c; c.updateWeekMask((uint8_t)n); c.updateSpecialDays(sp);
            WorkdayProbe p(loop);
            if (!p.initialize((int)sod, &c, b)) { std::cout << "P init=0\n"; return true; }
            uint32_t r = 0; bool ok = p.calc((uint32_t)t, r);
            std::cout << show_next(ok, r) << "\n";
        } else if (op == "new" && w.size() == 3 && slot_of(w[1], i) && (w[2] == "wk" || w[2] == "os" || w[2] == "wd") && !slots[i].a()) {
            Slot &s = slots[i];
            if (w[2] == "wk") { s.kind = 'k'; s.wk = new WeeklyProbe(loop); }
            else if (w[2] == "os") { s.kind = 'o'; s.os = new OneshotProbe(loop); }
            else { s.kind = 'd'; s.wd = new WorkdayProbe(loop); }
            st[i] = 'N';
            s.a()->setCallback([i] { on_alarm(i); });
            std::cout << state_line(1) << "\n";
        } else if (op == "init" && w.size() == 5 && slot_of(w[1], i) && vh::to_i64(w[2], iv) && w[2].size() <= 10 && iv >= -200000 && iv <= 200000 &&
                   mask_of(w[3], m) && bool_of(w[4], b) && slots[i].a()) {
            Slot &s = slots[i];
            bool ok = s.kind == 'k' ? s.wk->initialize((int)iv, m) : s.kind == 'o' ? s.os->initialize((int)iv) : s.wd->initialize((int)iv, cal.get(), b);
            if (ok) st[i] = 'I';
            std::cout << state_line(ok) << "\n";
        } else if (op == "tz" && w.size() == 3 && slot_of(w[1], i) && vh::to_i64(w[2], iv) && w[2].size() <= 10 && iv >= -1440 && iv <= 1440 && slots[i].a()) {
            slots[i].a()->setTimezone((int)iv);
            std::cout << state_line(1) << "\n";
        } else if (op == "en" && w.size() == 2 && slot_of(w[1], i) && slots[i].a()) {
            bool ok = slots[i].a()->enable();
            std::cout << state_line(ok) << "\n";
        } else if (op == "dis" && w.size() == 2 && slot_of(w[1], i) && slots[i].a()) {
            bool ok = slots[i].a()->disable();
            std::cout << state_line(ok) << "\n";
        } else if (op == "rf" && w.size() == 2 && slot_of(w[1], i) && slots[i].a()) {
            slots[i].a()->refresh();
            std::cout << state_line(1) << "\n";
        } else if (op == "cl" && w.size() == 2 && slot_of(w[1], i) && slots[i].a()) {
            slots[i].a()->cleanup();
            st[i] = 'N';
            std::cout << state_line(1) << "\n";
        } else if (op == "del" && w.size() == 2 && slot_of(w[1], i) && slots[i].a()) {
            delete slots[i].a();                   // as a user would: no disable() first
            slots[i] = Slot(); st[i] = 'N';
            std::cout << state_line(1) << "\n";
        } else if (op == "cb" && w.size() == 2 && slot_of(w[1], i) && slots[i].a()) {
            slots[i].a()->setCallback([i] { on_alarm(i); });
            std::cout << state_line(1) << "\n";
        } else if (op == "calmask" && w.size() == 2 && bounded(w[1], 255, n)) {
            cal->updateWeekMask((uint8_t)n);
            std::cout << state_line(1) << "\n";
        } else if (op == "calsp" && w.size() == 2 && specials_of(w[1], sp)) {
            cal->updateSpecialDays(sp);
            std::cout << state_line(1) << "\n";
        } else if (op == "adv" && w.size() == 2 && bounded(w[1], 40000000000ULL, n) && (uint64_t)vt::wall_ms() + n <= kMaxWallMs) {
            vt::advance_ms((int64_t)n); pending = true;
        } else if (op == "mono" && w.size() == 2 && bounded(w[1], 40000000000ULL, n)) {
            vt::advance_mono_ms((int64_t)n); pending = true;
        } else if (op == "wall" && w.size() == 2 && bounded(w[1], kMaxWallMs, n)) {
            vt::set_wall_ms((int64_t)n); pending = true;
        } else {
            std::cout << "bad-op\n";
        }
        return true;
    };
    drv.run();
    delete loop;
    return 0;
}
