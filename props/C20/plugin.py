"""C20 — alarms pick the earliest matching future instant and fire once per instant (tbox::alarm)."""
import vlib
ID = 'C20'
LEAN_MODULES = ['TboxModel.C20.Props']
EXE = 'c20'
MODE = 'trace'
THEOREMS = ['Tbox.C20.C20_weekly_earliest', 'Tbox.C20.C20_weekly_empty_mask', 'Tbox.C20.C20_oneshot_earliest',
            'Tbox.C20.C20_workday_earliest', 'Tbox.C20.C20_workday_none', 'Tbox.C20.C20_workday_beyond_scan_counterexample',
            'Tbox.C20.C20_tz', 'Tbox.C20.C20_delay_not_short', 'Tbox.C20.C20_delay_u32_counterexample',
            'Tbox.C20.C20_targets_strictly_increase', 'Tbox.C20.C20_enable_after_disable_earliest',
            'Tbox.C20.C20_stale_target_counterexample', 'Tbox.C20.C20_oneshot_once', 'Tbox.C20.C20_oneshot_expiry_idle', 'Tbox.C20.C20_disabled_never_fires',
            'Tbox.C20.C20_fired_was_enabled', 'Tbox.C20.C20_watch_alive', 'Tbox.C20.C20_destroy_unpatched_counterexample',
            'Tbox.C20.C20_world_callbacks_enabled', 'Tbox.C20.C20_once_per_instant', 'Tbox.C20.C20_refresh_in_early_callback_fixed', 'Tbox.C20.C20_world_targets_increase',
            'Tbox.C20.C20_refresh_in_early_callback_counterexample', 'Tbox.C20.C20_cron_earliest', 'Tbox.C20.C20_cron_none', 'Tbox.C20.C20_cron_horizon', 'Tbox.C20.C20_world_idle_not_served', 'Tbox.C20.C20_wall_step_not_seen_until_refresh',
            'Tbox.C20.C20_refresh_rebases_on_now', 'Tbox.C20.C20_expiry_without_next_instant_goes_idle', 'Tbox.C20.C20_cron_reinit_rejected_keeps_expression',
            'Tbox.C20.wExec_inv',
            'Tbox.C20.C20_cparse_nonempty', 'Tbox.C20.C20_cnext_matches', 'Tbox.C20.C20_cdo_next_sound', 'Tbox.C20.C20_cnext_after', 'Tbox.C20.C20_cnext_sound', 'Tbox.C20.C20_cdo_next_forward',
            'Tbox.C20.C20_tv_sec_width', 'Tbox.C20.C20_remain_seconds_width', 'Tbox.C20.C20_local_before_1970_counterexample',
            'Tbox.C20.C20_end_of_range_counterexample', 'Tbox.C20.C20_init_rejects_out_of_range', 'Tbox.C20.C20_week_mask_string',
            'Tbox.C20.C20_rearm_after_clock_jump',
            'Tbox.C20.C20_clock_failure_goes_idle', 'Tbox.C20.C20_arm_implies_clock_read',
            'Tbox.C20.C20_calendar_not_used_after_destruction', 'Tbox.C20.C20_destroy_idle_leaves_calendar_alone',
            'Tbox.C20.C20_destroy_after_calendar_counterexample', 'Tbox.C20.C20_repeated_calls_change_nothing',
            'Tbox.C20.C20_refresh_again_same_target',
            'Tbox.C20.C20_cdo_next_skips_nothing', 'Tbox.C20.C20_cnext_earliest_partial', 'Tbox.C20.C20_cnext_agrees_with_reference',
            'Tbox.C20.C20_cnext_fuel_counterexample',
            'Tbox.C20.C20_cnext_more_fuel_same_answer', 'Tbox.C20.C20_cnext_fuel_stable', 'Tbox.C20.C20_cnext_fuel_sufficient',
            'Tbox.C20.C20_cnext_none_is_horizon', 'Tbox.C20.C20_cnext_earliest_upto_horizon',
            'Tbox.C20.C20_arm_reads_clock_once', 'Tbox.C20.C20_delay_not_short_first_reading', 'Tbox.C20.C20_second_reading_counterexample',
            'Tbox.C20.C20_remain_reads_clock_once']
SOURCES = ['modules/alarm/alarm.cpp', 'modules/alarm/weekly_alarm.cpp', 'modules/alarm/oneshot_alarm.cpp',
           'modules/alarm/workday_alarm.cpp', 'modules/alarm/workday_calendar.cpp', 'modules/alarm/cron_alarm.cpp',
           'modules/alarm/3rd-party/ccronexpr.cpp'] + vlib.EVENT_SOURCES + vlib.BASE_SOURCES
FLAVOUR = 'asan'
LIBS = ['-ldl']
BATCH = 200
BATCH_TIMEOUT = 60
CASE_TIMEOUT = 10
SHRINK_TESTS = 60
MAX_REPORT = 3
HARNESS_ENV = {'TZ': 'VRF-3'}
TRUSTED = ['model lean/TboxModel/C20/Model.lean hand-written from modules/alarm/{alarm,weekly_alarm,oneshot_alarm,workday_alarm,workday_calendar}.cpp; '
           'tied by differential runs: probe subclasses for calculateNextLocalTimeSec, real alarms on the real epoll loop for arming/firing',
           'the loop TimerEvent under the alarm is the C02 timer (one-shot, fires in the first pass with mono >= armed-at + delay); '
           'here it is one optional deadline per alarm',
           'virtual wall + monotonic clocks by libc interposition (harness/vtime.h); system time zone pinned to UTC+3 without DST (TZ=VRF-3; model sysOffset) for alarms without setTimezone()',
           'cron alarm: the third-party evaluator ccronexpr (modules/alarm/3rd-party) is TRANSCRIBED in lean/TboxModel/C20/CCron.lean: cron_parse_expr on the raw bytes '
           '(split_str, strtol base 0, to_upper, replace_ordinals, get_range, set_number_hits, month rotation, Sunday 7 -> 0, ? -> *) and cron_next / do_next / find_next / '
           'find_next_day with the resets list, the recursion and the year horizon over struct tm + timegm (CCal.lean; ccronexpr is built without CRON_USE_LOCAL_TIME: timegm / gmtime_r, '
           'UTC, no TZ database - it only ever sees the alarm\'s local second count = UTC + explicit offset).  Proved: accepted => non-empty field sets; result matches every field, '
           'is > t and is the EARLIEST such instant (do_next skips no matching instant).  Tie on every run: acceptance and next instants as P lines, the six bit sets as M lines (op cx: raw strings incl. names, ?, hex/octal, inner white space, '
           'every start alignment 0..7 in an exact-size heap block).  The driver ALSO compares the transcription with the independently proved-earliest reference '
           'lean/TboxModel/C20/Cron.lean on every cron case (bit sets and next instant); a disagreement is reported as a broken correspondence (reject M).  Not carried: '
           'malloc failure paths, timegm returning -1, cron_prev (never called).  L / W / # are not in this version of ccronexpr (rejected by both sides)',
           'proleptic Gregorian calendar: civil_from_days / days_from_civil (H. Hinnant) with dfc (civil x) = x, civil (dfc y m 1) = (y, m, 1), month-start monotonicity proved in CalLaws.lean; '
           'glibc timegm / gmtime_r are tied to them through every cron P line',
           'which of several due timers the loop serves first is taken from the implementation trace (trace acceptor, as C02)',
           'gettimeofday(): the harness wraps the virtual-clock gettimeofday of harness/vtime.h (compiled under another name) and fails it with EFAULT while the op file says so '
           '(op gtod 0|1, callback acts gt0/gt1); the model takes the answer as the oracle Env.gtod / World.gtod of every step',
           'the wall clock MOVES while one library call runs (op skew sub_us inc_us step_ms): the first gettimeofday() of a library call answers the virtual wall clock (+ sub_us below the '
           'millisecond), the k-th later one first + step_ms + k*inc_us; a library call starts at every API call of the harness, every callback-script act, after every user callback and '
           'whenever the code looked at the monotonic clock (arming the loop timer ends an activeTimer()); the harness\'s own remainSeconds() for the state lines sees the first value.  Model: '
           'lean/TboxModel/C20/Reads.lean (activeTimerR over an oracle sequence of readings; it consumes one - C20_arm_reads_clock_once); the armed delay is measured exactly by landing '
           'the monotonic clock on deadline-1 ms (no callback allowed) and deadline (callback required)',
           'the WorkdayCalendar is a heap object of the harness (op caldel frees it): ASan reports any later access through wp_calendar_; the model carries calAlive and the ghost flag uaf; '
           'ops that would make the USER break the contract (caldel while a workday alarm is enabled, enable() of an initialised workday alarm / calendar updates after caldel) are bad-op on both sides']
ASSUMPTIONS = ['weekly / one-shot / workday arming theorems: the local computation stays below 2^32 (t + 9 d <= 2^32 weekly, t + 368 d workday, `InRange` for arming) - beyond it the uint32 sums of '
               'the code wrap; the model wraps identically (checked by correspondence, families gen_width 0-1 and pick_t) and C20_end_of_range_counterexample states what then happens '
               '(weekly/workday: "no instant", enable() fails; one-shot: wrapped target, delay still the true distance)',
               'local time start + offset >= 0: for UTC in the first hours of 1970 with a negative zone the uint32 local start wraps and the armed instant is wrong '
               '(C20_local_before_1970_counterexample; agreed by model and code, replayed in corpus/C20/14) - outside every practical clock, recorded as an observation',
               'tv_sec is stored into a uint32_t: exact until 2106-02-07 06:28:15, no effect at 2^31 (C20_tv_sec_width); setTimezone(minutes) with |minutes| > 35791394 overflows int (undefined behaviour) and is not exercised',
               'DST is out of scope: the alarm works with one explicit offset (setTimezone) or the system offset sampled at arming (GetSystemTimezoneOffsetSeconds; harness pins TZ=VRF-3); '
               'ccronexpr is compiled for UTC (timegm/gmtime_r)',
               'an alarm is not destroyed from inside its own callback (the code asserts against it); a WorkdayCalendar outlives every WorkdayAlarm that is ENABLED with it '
               '(raw non-owning pointer wp_calendar_): it is destroyed only while no workday alarm is enabled and no workday alarm is enabled afterwards (wValid); alarms that are not enabled '
               'may outlive it and be destroyed after it (C20_calendar_not_used_after_destruction, with patches/C20-11)',
               'gettimeofday() failure leaves an enabled alarm idle at its next refresh()/expiry (it is not re-armed by itself when the clock works again): what the code does, stated by '
               'C20_clock_failure_goes_idle; outside the property statement',
               'cron: beyond ccronexpr\'s year horizon (CRON_MAX_YEARS_DIFF) "no instant" is the specified answer of both sides; the transcribed cron_next is proved to return the EARLIEST '
               'match whenever it returns an instant (C20_cnext_earliest_partial) and never an instant different from the reference\'s (C20_cnext_agrees_with_reference); that it DOES return one '
               'whenever the reference does is closed up to ONE lemma: the model\'s recursion fuel is proved never to be the reason for an answer (more fuel never changes an answer; with any matching instant M > t every fuel > M - t is sufficient and a "none" there is the horizon test: C20_cnext_fuel_sufficient, C20_cnext_none_is_horizon, C20_cnext_earliest_upto_horizon); that the horizon test `tm_year - dot > 4` fires exactly when the reference\'s does is compared on every case, not a theorem']
RULE = ('(1) pure: calculateNextLocalTimeSec of weekly/oneshot/workday probes on generated (seconds-of-day, mask, calendar, t) with t at day/week '
        'boundaries +-2 s over the whole uint32 range; (2) histories of up to 4 alarms on the real loop: new/init/tz/enable/disable/refresh/cleanup, '
        'calendar updates, destruction, callback scripts (refresh/disable/enable/cleanup/initialize/setTimezone of any alarm incl. the own one, destroy another alarm '
        'also one due in the same pass, calendar updates from inside callbacks), cron alarms as stateful slots (initc, rejected re-initialisation, Feb-29 chain across the year horizon), '
        'directed boundary families (wall step between arming and firing, the second after a fire, day/week wrap at 00:00:00 / 23:59:59, zones +-12h/+14h/half hours, all-days-off calendar, empty week mask), '
        'clock advances landing at target-1ms/target/target+1ms, monotonic-ahead skew, wall-clock jumps, distances up to > 1 year; (3) cron_next of the '
        'third-party evaluator against the reference on generated expressions (lists/ranges/steps/*) with t at month/year/leap boundaries; (4) op cx: raw expression strings (names in any case, ?, hex/octal/signed numbers, white space, field-count and 256-character limits, rejected items) through the real cron_parse_expr at every start alignment, bit sets compared as M lines; (5) width families: tv_sec at 2^31 / 2^32, local time before 1970, zone offsets up to the int limit, seconds_of_day at the int limits; '
        '(6) state-derived follow-ups on one armed object: the same specification / zone / calendar / enable / refresh again, refresh at the armed instant, backward jump onto the served instant; (7) fault schedules: gettimeofday failing during enable / refresh / expiry / calendar update (also switched from inside callbacks), and the calendar destroyed before alarms that are not enabled (never enabled, disabled, failed enable, idle after a failed re-arm); '
        '(8) clock readings: a second boundary / an NTP step of +1 s, +1 h, -1 s between two looks at the clock inside one arming (usec classes 999900, 999999, 000000, 000001; instants 1 s, 2 s, 1 min, 1 h, 1 day away; enable, refresh, calendar update, re-arm of an expiry, refresh from inside the callback), delay measured to the millisecond; '
        'non-trivial = a callback fired (on time, early or late), or an arm farther than 2^32 ms, or a scan that went past today; distinct = distinct op text')

D = 86400
U32 = 1 << 32
WALL0 = 1700000000000


# ---- independent reference (brute force, Python ints) used only to steer the clock advances
def is_workday(cal, day):
    for (d, b) in cal['sp']:
        if d == day: return b
    return bool(cal['mask'] >> ((day % 7 + 4) % 7) & 1)


def ref_next(a, cal, t):
    """earliest local instant > t matching the configuration (None if none within 370 days)"""
    day0 = t // D
    for k in range(0, 370):
        day = day0 + k
        cand = day * D + a['sod']
        if cand <= t: continue
        if a['kind'] == 'os': return cand
        if a['kind'] in ('wk', 'cr'):
            if a['mask'] >> ((day + 4) % 7) & 1: return cand
        else:
            if is_workday(cal, day) == a['wd']: return cand
    return None


def specials_text(sp):
    return ','.join('%d:%d' % (d, 1 if b else 0) for (d, b) in sp) or '-'


def mask_text(m):
    return ''.join('1' if m >> i & 1 else '0' for i in range(7))


def pick_t(rng, sod=None):
    r = rng.random()
    if r < 0.08:
        base = U32 - rng.choice([1, 2, D, 8 * D, 9 * D, 367 * D, 368 * D, 369 * D]) - rng.randrange(3)
        return max(0, min(U32 - 1, base))
    if r < 0.12: return rng.randrange(0, 3 * D)
    day = rng.randrange(0, 49000)
    r = rng.random()
    if r < 0.35: off = rng.choice([0, 1, 2, D - 1, D - 2])
    elif r < 0.7 and sod is not None and sod < D: off = (sod + rng.choice([-2, -1, 0, 1, 2])) % D
    else: off = rng.randrange(D)
    return day * D + off


def pick_sod(rng):
    r = rng.random()
    if r < 0.3: return rng.choice([0, 1, D - 1, D - 2, 43200])
    if r < 0.33: return rng.choice([D, D + 1, 100000])       # rejected by initialize
    return rng.randrange(D)


def pick_mask(rng):
    r = rng.random()
    if r < 0.25: return mask_text(1 << rng.randrange(7))
    if r < 0.30: return '0000000'
    if r < 0.34: return rng.choice(['111111', '11111111', '-', '1x1x1x1', 'xxxxxxx', '1'])
    return mask_text(rng.randrange(128))


def pick_calendar(rng, day):
    r = rng.random()
    mask = rng.choice([62, 62, 0, 127, 255, rng.randrange(256)])
    sp = []
    if r < 0.35:
        k = rng.choice([0, 1, 2, 49, 50, 60, 200, 365, 366, 367, 368, 400])
        mask = rng.choice([0, 0, 127])
        sp = [(day + k, mask == 0)]
        if rng.random() < 0.3: sp.append((day + k + rng.choice([1, 7, 300]), mask == 0))
    elif r < 0.75:
        for _ in range(rng.randrange(1, 6)):
            sp.append((max(0, day + rng.randrange(-2, 12)), rng.random() < 0.5))
    return mask, sp


def gen_pure(rng):
    ops = []
    for _ in range(rng.choice([4, 8, 16])):
        sod = pick_sod(rng)
        t = pick_t(rng, sod)
        r = rng.random()
        if r < 0.45:
            ops.append('wk %d %s %d' % (sod, pick_mask(rng), t))
        elif r < 0.6:
            ops.append('os %d %d' % (sod, t))
        else:
            mask, sp = pick_calendar(rng, t // D)
            ops.append('wd %d %d %d %s %d' % (sod, rng.randrange(2), mask, specials_text(sp), t))
    return ops


def init_line(i, a):
    """the (re-)initialisation op of slot i for its kind; cron slots: `sec min hour * * dow-list` carrying the same sod/mask"""
    if a['kind'] == 'cr':
        sod = a['sod'] % D
        dow = '*' if a['mask'] == 127 else (','.join(str(k) for k in range(7) if a['mask'] >> k & 1) or '*')
        return 'initc %d %d %d %d * * %s' % (i, sod % 60, sod // 60 % 60, sod // 3600, dow)
    return 'init %d %d %s %d' % (i, a['sod'], mask_text(a['mask']) if a['kind'] == 'wk' else '-', 1 if a['wd'] else 0)


def gen_history(rng, nsteps):
    ops = []
    wall = [WALL0]
    cal = {'mask': 62, 'sp': []}
    al = {}

    def set_wall(v):
        v = max(0, min(v, (U32 - 400 * D) * 1000))
        wall[0] = v
        ops.append('wall %d' % v)

    def adv(ms):
        ms = int(max(0, min(ms, 40000000000)))
        wall[0] += ms
        ops.append('adv %d' % ms)

    # start somewhere interesting
    if rng.random() < 0.8:
        day = rng.randrange(3, 49000)
        off = rng.choice([0, 1, D - 1, D - 2, rng.randrange(D), rng.randrange(D)])
        set_wall((day * D + off) * 1000 + rng.choice([0, 1, 500, 998, 999, rng.randrange(1000)]))
    n = rng.choice([1, 1, 2, 3, 4])
    for i in range(n):
        kind = rng.choice(['wk', 'wk', 'os', 'wd', 'wd', 'cr'])
        script = '-'
        if rng.random() < 0.4:
            acts = []
            for _ in range(rng.choice([1, 1, 2, 3])):
                j = rng.choice([i, i, rng.randrange(n)])
                r2 = rng.random()
                if r2 < 0.35: acts.append('rf%d' % j)
                elif r2 < 0.5: acts.append('dis%d' % j)
                elif r2 < 0.65: acts.append('en%d' % j)
                elif r2 < 0.75 and j != i: acts.append('del%d' % j)
                elif r2 < 0.80: acts.append('cm%d' % rng.choice([0, 62, 127, rng.randrange(256)]))
                elif r2 < 0.86: acts.append('cl%d' % j)
                elif r2 < 0.88 and kind == 'cr': acts.append('ic%d:%s' % (j, hx(rng.choice(['0 0 12 ? * MON-FRI', '*/30 * * * * *', '0 0 0 1 JAN *', '0 0 0 * * 8', '60 * * * * *', '%d %d %d * * ?' % (rng.randrange(60), rng.randrange(60), rng.randrange(24))]))))
                elif r2 < 0.90: acts.append('tz%d:%d' % (j, rng.choice([-720, -570, -300, 0, 330, 345, 480, 765, 840])))
                elif r2 < 0.95: acts.append('in%d:%d:%s:%d' % (j, rng.choice([0, 1, D - 1, rng.randrange(D), D]), rng.choice(['1111111', '0000000', '1000001', '111']), rng.randrange(2)))
                else:
                    day = wall[0] // 1000 // D
                    acts.append('cs' + ('+'.join('%d:%d' % (day + rng.randrange(0, 9), rng.randrange(2)) for _ in range(rng.randrange(0, 3))) or '-'))
            script = ','.join(acts) or '-'
        ops.append('new %d %s %s' % (i, kind, script) if script != '-' or rng.random() < 0.5 else 'new %d %s' % (i, kind))
        a = {'kind': kind, 'sod': 0, 'mask': 127, 'wd': True, 'tz': 180, 'on': False}
        al[i] = a
        if rng.random() < 0.7:
            a['tz'] = rng.choice(range(-12 * 60, 14 * 60 + 1, 15))
            ops.append('tz %d %d' % (i, a['tz']))
        if rng.random() < 0.93:
            local = wall[0] // 1000 + a['tz'] * 60
            if rng.random() < 0.5:
                a['sod'] = (local + rng.choice([1, 2, 3, 10, 60, 3600, D - 1, 0, -1])) % D
            else:
                a['sod'] = rng.randrange(D)
            m = rng.choice([127, 127, 1 << rng.randrange(7), rng.randrange(1, 128), rng.randrange(128)])
            if kind == 'wk' and rng.random() < 0.04: m = 0            # empty week mask: enable() must fail, nothing may spin
            a['mask'] = m
            a['wd'] = rng.random() < 0.6
            ops.append(init_line(i, a))
        if rng.random() < 0.9:
            ops.append('en %d' % i); a['on'] = True

    def next_dist_ms(i):
        a = al[i]
        local = wall[0] // 1000 + a['tz'] * 60
        if local < 0: return None
        nl = ref_next(a, cal, local)
        if nl is None: return None
        return (nl - a['tz'] * 60) * 1000 - wall[0]

    for _ in range(nsteps):
        i = rng.randrange(n)
        r = rng.random()
        if r < 0.40:
            d = next_dist_ms(i)
            if d is None or d <= 0:
                adv(rng.choice([1000, 3600000, 86400000]))
                continue
            style = rng.random()
            if style < 0.35:
                adv(d - 1); adv(1); adv(rng.choice([0, 1, 999, 1000]))
            elif style < 0.65:
                k = rng.randrange(1, 21)                    # monotonic clock ahead of the wall clock by k ms
                ops.append('mono %d' % k)
                if d - k > 0: adv(d - k)
                adv(rng.choice([k, k - 1, 1])); adv(rng.choice([0, 1, 1000]))
            elif style < 0.8:
                adv(d + rng.choice([0, 1, 1500, 86400000]))  # late wake-up
            else:
                adv(d // 2); adv(d - d // 2)
        elif r < 0.50:
            adv(rng.choice([0, 1, 999, 1000, 60000, 86400000, 7 * 86400000, 50 * 86400000, 400 * 86400000]))
        elif r < 0.58:
            ops.append('dis %d' % i); al[i]['on'] = False
        elif r < 0.68:
            ops.append('en %d' % i); al[i]['on'] = True
        elif r < 0.74:
            ops.append('rf %d' % i)
        elif r < 0.80:
            jump = rng.choice([-1, -1000, -3600000, -86400000, 1000, 3600000, 86400000, -7, 7])
            set_wall(wall[0] + jump)
            if rng.random() < 0.6: ops.append('rf %d' % i)
        elif r < 0.90:
            day = wall[0] // 1000 // D
            mask, sp = pick_calendar(rng, day)
            if rng.random() < 0.5:
                cal['mask'] = mask; ops.append('calmask %d' % mask)
            cal['sp'] = sp; ops.append('calsp %s' % specials_text(sp))
        elif r < 0.92:
            a = al[i]
            a['sod'] = rng.randrange(D)
            if a['kind'] == 'cr' and rng.random() < 0.4:
                ops.append('initc %d %s' % (i, rng.choice(['60 * * * * *', '0 0 12 * 13 *', '0 0 0 32 * *', '5-3 * * * * *', '*/0 * * * * *'])))   # rejected: the old expression stays
            else:
                ops.append(init_line(i, a))
        elif r < 0.955:
            ops.append('cl %d' % i); al[i]['on'] = False
            if rng.random() < 0.7: ops.append('cb %d' % i)
            if rng.random() < 0.8:        # cleanup() forgets time zone / target / callback: re-initialise and enable again
                a = al[i]; a['tz'] = 180
                ops.append(init_line(i, a))
                ops.append('en %d' % i); a['on'] = True
        elif r < 0.965:
            ops.append('del %d' % i)
            if rng.random() < 0.6:
                ops.append(rng.choice(['calmask %d' % rng.choice([0, 62, 127]), 'calsp -']))     # the calendar must not touch the dead alarm
            if rng.random() < 0.5:
                ops.append('new %d %s' % (i, al[i]['kind'])); al[i]['on'] = False
        elif r < 0.98:
            a = al[i]; a['tz'] = rng.choice(range(-12 * 60, 14 * 60 + 1, 15))
            ops.append('tz %d %d' % (i, a['tz']))
        else:
            ops.append('mono %d' % rng.randrange(0, 21))
    return ops


def gen_boundary(rng):
    """directed families (round 5 audit): API calls from inside callbacks, wall-clock steps between arming and firing,
    the second after a fire, same-pass deletion, extreme zones, day/week wrap, empty configurations, cron chains"""
    fam = rng.randrange(10)
    day = rng.randrange(10, 47000)
    tzm = rng.choice([-720, -570, -300, 0, 0, 180, 330, 345, 480, 765, 840])
    kind = rng.choice(['wk', 'wd', 'os', 'cr'])
    sod_local = rng.choice([0, 1, D - 1, D - 2, 43200, rng.randrange(D)])
    # UTC instant of the first target: local sod on some day, shifted by the zone
    T = day * D + sod_local - tzm * 60
    lead = rng.choice([1, 2, 59, 60, 3600, 86399])              # armed this many seconds before the target
    ms = rng.choice([0, 1, 500, 999])
    a = {'kind': kind, 'sod': sod_local, 'mask': 127, 'wd': True, 'tz': tzm}
    pre = ['calmask 127'] if kind == 'wd' else []
    head = lambda script: pre + ['new 0 %s %s' % (kind, script), 'tz 0 %d' % tzm, init_line(0, a), 'wall %d' % ((T - lead) * 1000 + ms), 'en 0']
    to_fire = lead * 1000 - ms
    if fam == 0:       # the callback calls the API of its own alarm
        script = rng.choice(['dis0', 'en0', 'rf0', 'cl0', 'dis0,en0', 'cl0,in0:%d:1111111:1,en0' % ((sod_local + 5) % D), 'tz0:%d,rf0' % rng.choice([-720, 840, 330]),
                             'in0:%d:1111111:1' % rng.randrange(D), 'dis0,in0:%d:1111111:1,en0' % ((sod_local + rng.choice([1, 2, 60])) % D), 'rf0,rf0', 'dis0,dis0', 'cl0,cl0'])
        ops = head(script) + ['adv %d' % to_fire, 'adv 1', 'adv 999', 'adv %d' % (D * 1000), 'en 0', 'adv %d' % (D * 1000)]
    elif fam == 1:     # one-shot re-enables itself from its callback (on time and on an early wake-up)
        a['kind'] = 'os'
        k = rng.choice([0, 0, 3, 20])
        ops = ['new 0 os %s' % rng.choice(['en0', 'en0,en0', 'en0,rf0', 'in0:%d:-:1,en0' % ((sod_local + 7) % D)]), 'tz 0 %d' % tzm, init_line(0, a),
               'wall %d' % ((T - lead) * 1000 + ms), 'en 0'] + (['mono %d' % k] if k else []) + ['adv %d' % max(0, to_fire - k), 'adv %d' % (k or 1), 'adv %d' % (D * 1000), 'adv %d' % (D * 1000)]
    elif fam == 2:     # two alarms due in the same pass; the callback of one deletes / disables / cleans up the other
        act = rng.choice(['del', 'dis', 'cl', 'rf'])
        k2 = rng.choice(['wk', 'wd', 'os', 'cr'])
        b = dict(a); b['kind'] = k2
        ops = pre + (['calmask 127'] if k2 == 'wd' and not pre else []) + ['new 0 %s %s1' % (kind, act), 'new 1 %s %s0' % (k2, act), 'tz 0 %d' % tzm, 'tz 1 %d' % tzm, init_line(0, a), init_line(1, b),
               'wall %d' % ((T - lead) * 1000 + ms), 'en 0', 'en 1', 'adv %d' % to_fire, 'calmask 62', 'adv %d' % (D * 1000), 'adv %d' % (D * 1000)]
    elif fam == 3:     # wall clock stepped between arming and firing (timer stays on the monotonic delta), then refresh()
        step = rng.choice([-1, -1000, -3600000, -86400000, 1, 1000, 3600000, 86400000, 3 * 86400000, -(lead * 1000), lead * 1000, lead * 1000 + 1])
        w1 = max(0, (T - lead) * 1000 + ms + step)
        ops = head('-') + ['wall %d' % w1, 'adv %d' % max(0, to_fire - 1), 'adv 1', 'adv 1000', rng.choice(['rf 0', 'dis 0', 'adv 0']), 'en 0', 'adv %d' % (D * 1000), 'adv %d' % (D * 1000)]
    elif fam == 4 and rng.random() < 0.3:   # cleanup() clears the callback: expiries stay silent until setCallback() (single alarm: no order question)
        ops = head('-') + ['adv %d' % to_fire, 'clx 0', init_line(0, a), 'tz 0 %d' % tzm, 'en 0', 'adv %d' % (D * 1000), 'adv %d' % (D * 1000), 'cb 0', 'adv %d' % (D * 1000)]
    elif fam == 4:     # the second after a fire: refresh / disable+enable / re-init while now is still the served second
        gap = rng.choice([0, 1, 500, 999, 1000])
        ops = head('-') + ['adv %d' % to_fire] + (['adv %d' % gap] if gap else []) + rng.choice([['rf 0'], ['dis 0', 'en 0'], ['dis 0', init_line(0, a), 'en 0'], ['cl 0', init_line(0, a), 'tz 0 %d' % tzm, 'en 0'], ['en 0']]) + \
              ['adv %d' % (999 - min(gap, 999)), 'adv 1000', 'adv %d' % (D * 1000)]
    elif fam == 5:     # day / week wrap: single weekday, target at 00:00:00 or 23:59:59 local, armed one second before / at / after
        a['kind'] = 'wk'; a['sod'] = rng.choice([0, D - 1]); a['mask'] = 1 << rng.randrange(7)
        Tl = day * D + a['sod']
        w0 = (Tl - tzm * 60 + rng.choice([-1, 0, 1, -D, D - 1])) * 1000 + rng.choice([0, 999])
        ops = ['new 0 wk', 'tz 0 %d' % tzm, init_line(0, a), 'wall %d' % max(0, w0), 'en 0', 'adv 999', 'adv 1', 'adv %d' % (D * 1000), 'adv %d' % (6 * D * 1000), 'adv %d' % (D * 1000)]
    elif fam == 6:     # nothing can match: all days off / empty week mask — enable() fails, a running alarm goes idle, nothing spins
        if rng.random() < 0.5:
            ops = ['calmask 0', 'calsp -', 'new 0 wd', init_line(0, dict(a, kind='wd')), 'en 0', 'rf 0', 'adv %d' % (D * 1000), 'calmask 62', 'en 0', 'calmask 0', 'adv %d' % (3 * D * 1000),
                   'calmask 127', 'en 0', 'adv %d' % (D * 1000), 'calsp -']
        else:
            ops = ['new 0 wk', 'init 0 %d 0000000 1' % sod_local, 'en 0', 'adv %d' % (8 * D * 1000), 'init 0 %d 0000001 1' % sod_local, 'en 0', 'dis 0', 'init 0 %d 0000000 1' % sod_local, 'en 0', 'rf 0']
    elif fam == 7:     # extreme zones: +-12 h, +14 h, half / quarter hours, applied before and after the local computation
        z = rng.choice([-720, 840, -570, 330, 345, 765, -1440, 1440])
        Tz = day * D + sod_local - z * 60
        ops = ['new 0 %s' % kind] + pre + ['tz 0 %d' % z, init_line(0, a), 'wall %d' % max(0, (Tz - 1) * 1000), 'en 0', 'adv 999', 'adv 1', 'tz 0 %d' % rng.choice([-720, 840, 0]), 'adv %d' % (D * 1000), 'rf 0', 'adv %d' % (D * 1000)]
    elif fam == 8:     # cron alarm on the real loop: Feb 29 chain across the year horizon; a rejected re-initialisation keeps the old expression
        y = rng.choice([2024, 2028, 2092, 2096, 2096, 2000, 1972])
        t0 = days_from_civil(y, 2, 29) * D
        ops = ['new 0 cr %s' % rng.choice(['-', '-', 'rf0', 'dis0,en0', 'ic0:%s' % hx('0 0 0 29 FEB ?'), 'dis0,ic0:%s,en0' % hx('0 0 0 1 MAR *'), 'ic0:%s,rf0' % hx('bad')]), 'tz 0 0', 'initc 0 0 0 0 29 2 *', 'wall %d' % ((t0 - 60) * 1000), 'en 0', 'adv 59999', 'adv 1', 'en 0', 'rf 0',
               'initc 0 0 0 0 30 2 *', 'initc 0 0 0 0 32 2 *', 'en 0'] + ['adv 40000000000'] * 4 + ['en 0']
    else:              # cron alarm: fields at their limits, enabled around the instant
        expr = rng.choice(['59 59 23 31 12 *', '0 0 0 1 1 *', '59 59 23 * * 7', '0 0 0 * * 0', '*/59 */59 */23 */31 */12 */7', '0-59/59 0-59/59 0-23/23 1-31/30 1-12/11 0-7/7', '59/1 59/1 23/1 31/1 12/1 7/1'])
        t0 = days_from_civil(rng.choice([2023, 2024, 2099]), 12, 31) * D + D - 1
        ops = ['new 0 cr', 'tz 0 0', 'initc 0 %s' % expr, 'wall %d' % ((t0 - 2) * 1000 + 500), 'en 0', 'adv 1499', 'adv 1', 'adv 1000', 'adv 1000', 'adv %d' % (D * 1000)]
    return ops


def gen_far(rng):
    """workday alarm whose next matching day is k days away (distances beyond 2^32 ms and beyond the 367-day scan)"""
    day = rng.randrange(10, 48000)
    off = rng.randrange(D)
    k = rng.choice([1, 49, 50, 51, 60, 100, 200, 365, 366, 367, 368])
    sod = rng.choice([0, off, (off + 1) % D, D - 1, rng.randrange(D)])
    tz = rng.choice([0, 0, 480, -300, 345])
    ops = ['wall %d' % ((day * D + off) * 1000 + rng.randrange(1000)), 'calmask 0', 'calsp %d:1' % (day + k), 'new 0 wd', 'tz 0 %d' % tz,
           'init 0 %d - 1' % sod, 'en 0', 'adv 1000', 'adv %d' % rng.choice([1, 704000, 86400000])]
    total = k * D * 1000
    step = rng.choice([total // 3 + 1, 30 * D * 1000, total])
    done = 0
    while done < total + 2 * D * 1000 and len(ops) < 40:
        ops.append('adv %d' % min(step, 40000000000)); done += step
    ops += ['rf 0', 'dis 0', 'en 0']
    return ops


def days_from_civil(y, m, d):
    y -= m <= 2
    era = y // 400
    yoe = y - era * 400
    doy = (153 * (m + (-3 if m > 2 else 9)) + 2) // 5 + d - 1
    doe = yoe * 365 + yoe // 4 - yoe // 100 + doy
    return era * 146097 + doe - 719468


def cron_item(rng, lo, hi):
    r = rng.random()
    if r < 0.35: return str(rng.randint(lo, hi))
    if r < 0.55:
        a = rng.randint(lo, hi); b = rng.randint(a, hi)
        return '%d-%d' % (a, b)
    if r < 0.7: return '*/%d' % rng.choice([1, 2, 3, 5, 7, 10, 15, 20, 30, 59])
    if r < 0.8: return '%d/%d' % (rng.randint(lo, hi), rng.choice([1, 2, 3, 5, 10, 15]))
    if r < 0.9:
        a = rng.randint(lo, hi); b = rng.randint(a, hi)
        return '%d-%d/%d' % (a, b, rng.choice([1, 2, 3, 4, 5, 7]))
    return '*'


def cron_field(rng, lo, hi, star=0.4):
    if rng.random() < star: return '*'
    return ','.join(cron_item(rng, lo, hi) for _ in range(rng.choice([1, 1, 1, 2, 3])))


def gen_cron(rng):
    ops = []
    for _ in range(rng.choice([3, 6, 10])):
        sec = cron_field(rng, 0, 59, 0.2); mi = cron_field(rng, 0, 59, 0.3); hr = cron_field(rng, 0, 23, 0.4)
        dom = cron_field(rng, 1, 31, 0.5); mon = cron_field(rng, 1, 12, 0.5); dow = cron_field(rng, 0, 7, 0.5)
        r = rng.random()
        if r < 0.55:
            y = rng.randint(1970, 2104); m = rng.randint(1, 12)
            if rng.random() < 0.3: y, m = rng.choice([1972, 2000, 2024, 2096, 2100, 2023]), rng.choice([2, 3])
            if rng.random() < 0.15: m = rng.choice([12, 1])
            first = days_from_civil(y, m, 1) * D
            t = first + rng.choice([-2, -1, 0, 1, -D, -D - 1, -D + 1, D - 1, rng.randrange(-3 * D, 3 * D)])
        elif r < 0.6: t = rng.choice([0, 1, 59, 60, 3599, 3600, D - 1, D])
        else: t = rng.randrange(0, U32)
        t = max(0, min(t, U32 - 1))
        ops.append('%s %s %s %s %s %s %s %d' % (rng.choice(['cron', 'cron', 'cron', 'cronen']), sec, mi, hr, dom, mon, dow, t))
    return ops


def gen_cron_sparse(rng):
    """directed families around ccronexpr's year horizon (tm_year - start year > 4 at a jump to the next allowed month => no instant)"""
    ops = []
    hms = lambda: rng.choice(['0 0 0', '0 0 0', '59 59 23', '%d %d %d' % (rng.randrange(60), rng.randrange(60), rng.randrange(24)), '*/20 30 12'])
    fam = rng.randrange(4)
    for _ in range(rng.choice([4, 8])):
        if fam == 0:
            # Feb 29 from every position relative to the leap years, incl. 2096 -> 2104 across the non-leap 2100
            y = rng.choice([1971, 1972, 1973, 1996, 2000, 2001, 2023, 2024, 2025, 2026, 2027, 2028, 2092, 2095, 2096, 2097, 2099, 2100, 2101, 2103, 2104, rng.randint(1970, 2105)])
            leap = (y % 4 == 0 and y % 100 != 0) or y % 400 == 0
            base = days_from_civil(y, 2, 29 if leap else 28) * D
            t = rng.choice([base - 1, base, base + 1, base + D - 1, base + D, days_from_civil(y, 1, 1) * D, days_from_civil(y, 12, 31) * D + D - 1,
                            days_from_civil(y, rng.randint(1, 12), rng.randint(1, 28)) * D + rng.randrange(D)])
            dow = rng.choice(['*', '*', '*', str(rng.randrange(8)), '1-5'])
            expr = '%s 29 2 %s' % (hms(), dow)
        elif fam == 1:
            # day 31 (30) in months that do not have it, alone or mixed with months that do
            dom = rng.choice(['31', '31', '30,31', '30', '29-31', '31,1'])
            mon = rng.choice(['4', '6', '9', '11', '4,6,9,11', '2', '2,4', '4,5', '2,12', '11,12', '2-4', '*/5'])
            y = rng.randint(1970, 2104); m = rng.randint(1, 12)
            t = days_from_civil(y, m, rng.choice([1, 28, 29 if m != 2 else 28, 30 if m != 2 else 28])) * D + rng.choice([0, 1, D - 1, rng.randrange(D)])
            expr = '%s %s %s %s' % (hms(), dom, mon, rng.choice(['*', '*', str(rng.randrange(7))]))
        elif fam == 2:
            # day-of-month + month + weekday all restricted: sparse matches 1..11 years apart
            dom = rng.choice(['1', '13', '25', '31', '29', '1,15', str(rng.randint(1, 31))])
            mon = rng.choice(['1', '2', '12', '7', '2,8', str(rng.randint(1, 12))])
            dow = rng.choice([str(rng.randrange(8)), str(rng.randrange(8)), '1-2', '6,0', '5'])
            y = rng.randint(1970, 2104)
            t = days_from_civil(y, rng.randint(1, 12), rng.randint(1, 28)) * D + rng.choice([0, D - 1, rng.randrange(D)])
            expr = '%s %s %s %s' % (hms(), dom, mon, dow)
        else:
            # December/January neighbours and the last second of a year (the start year moves when t itself matches)
            y = rng.randint(1970, 2104)
            t = days_from_civil(y, 12, 31) * D + rng.choice([D - 1, D - 2, D, 0])
            expr = rng.choice(['59 59 23 31 12 *', '59 59 23 31 12 %d' % rng.randrange(7), '0 0 0 1 1 %d' % rng.randrange(7), '59 59 23 29 2 *',
                               '0 0 0 29 2 *', '59 59 23 31 12,1 %d' % rng.randrange(7), '59 59 23 * 12 *'])
        t = max(0, min(t, U32 - 1))
        ops.append('%s %s %d' % (rng.choice(['cron', 'cron', 'cronen']), expr, t))
    return ops


def hx(expr):
    return ''.join('%02x' % ord(c) for c in expr) or '-'


MONTHS = ['JAN', 'FEB', 'MAR', 'APR', 'MAY', 'JUN', 'JUL', 'AUG', 'SEP', 'OCT', 'NOV', 'DEC']
DAYS = ['SUN', 'MON', 'TUE', 'WED', 'THU', 'FRI', 'SAT']


def cx_num(rng, v, names=None):
    """one number in one of the spellings strtol(…, 0) / replace_ordinals accept"""
    r = rng.random()
    if names and 0 <= v - names[1] < len(names[0]) and r < 0.45:
        n = names[0][v - names[1]]
        return rng.choice([n, n.lower(), n.capitalize()])
    if r < 0.55: return str(v)
    if r < 0.65: return '0x%x' % v
    if r < 0.72: return '0X%X' % v
    if r < 0.82: return '0%o' % v
    if r < 0.88: return '+%d' % v
    if r < 0.92: return '00%o' % v
    return str(v)


def cx_field(rng, lo, hi, names=None, q=False):
    r = rng.random()
    if r < 0.25: return '*'
    if q and r < 0.35: return '?'
    items = []
    for _ in range(rng.choice([1, 1, 1, 2, 3])):
        a = rng.randint(lo, hi); b = rng.randint(a, hi)
        r = rng.random()
        if r < 0.35: it = cx_num(rng, a, names)
        elif r < 0.6: it = cx_num(rng, a, names) + '-' + cx_num(rng, b, names)
        elif r < 0.7: it = '*/' + cx_num(rng, rng.choice([1, 2, 3, 5, 7, 10, 15, 30, 59, 2147483647]))
        elif r < 0.8: it = cx_num(rng, a, names) + '/' + cx_num(rng, rng.choice([1, 2, 3, 5, 10]))
        elif r < 0.9: it = cx_num(rng, a, names) + '-' + cx_num(rng, b, names) + '/' + cx_num(rng, rng.choice([1, 2, 3, 4, 7]))
        else: it = '*'
        items.append(it)
    return ','.join(items)


CX_BAD_FIELDS = ['a', '1-', '-1', '1--2', '1/2/3', ',', '*/', '/5', '60', '5-*', '*-5', '1-2-3', '0x', '0xg', '08', '09', '1a', '+', '-', '+-1', '--1', '*/0', '*/-1', '*/-0',
                 '5/0x0', '2147483648', '99999999999999999999', '1 2', '?', '??', '*?', '**', 'L', '1W', '5#2', 'MONDAY', 'JANU', 'SUNMON', 'FOO', 'foo', '1,', ',1', '1,,2',
                 '7-0', '0-7', '59-0', '0x3c', '074', '073', '+59', '0-0', '*/2147483647', '*/2147483648']


def cx_t(rng):
    r = rng.random()
    if r < 0.5:
        y = rng.randint(1970, 2104); m = rng.randint(1, 12)
        if rng.random() < 0.3: y, m = rng.choice([1972, 2000, 2024, 2096, 2100, 2023]), rng.choice([2, 3])
        return max(0, min(U32 - 1, days_from_civil(y, m, 1) * D + rng.choice([-2, -1, 0, 1, -D, D - 1, rng.randrange(-3 * D, 3 * D)])))
    if r < 0.58: return rng.choice([0, 1, 59, 60, 3599, 3600, D - 1, D, 2 ** 31 - 1, 2 ** 31, 2 ** 31 + 1, U32 - 1, U32 - 2, U32 - D, U32 - 366 * D, U32 - 5 * 366 * D])
    return rng.randrange(0, U32)


def gen_cx(rng):
    """raw expression strings through the real cron_parse_expr (bit sets as M lines) and cron_next: names in any case, `?`, hexadecimal / octal /
    signed numbers (strtol base 0), white space inside fields, wrong field counts, the 256-character limit, rejected items; the string starts at
    every alignment 0..7 inside a heap block of exactly its size"""
    ops = []
    for _ in range(rng.choice([4, 8, 12])):
        f = [cx_field(rng, 0, 59), cx_field(rng, 0, 59), cx_field(rng, 0, 23), cx_field(rng, 1, 31, q=True),
             cx_field(rng, 1, 12, (MONTHS, 1)), cx_field(rng, 0, 7 if rng.random() < 0.3 else 6, (DAYS, 0), q=True)]
        r = rng.random()
        if r < 0.25:
            f[rng.randrange(6)] = rng.choice(CX_BAD_FIELDS)
        elif r < 0.30:
            f = f[:rng.choice([0, 1, 5])] if rng.random() < 0.5 else f + ['*'] * rng.choice([1, 2])
        sep = lambda: rng.choice([' ', ' ', ' ', '  ', ' \t', '\t ', ' \n ', ' \r\v\f '])
        expr = f[0] if f else ' '
        for x in f[1:]: expr += sep() + x
        r = rng.random()
        if r < 0.15: expr = rng.choice([' ', '  ', '\t']) + expr + rng.choice(['', ' ', ' \n'])
        elif r < 0.22:            # a tab inside a field is dropped, not a separator
            k = rng.randrange(len(expr)); expr = expr[:k] + '\t' + expr[k:]
        elif r < 0.30:            # CRON_MAX_STR_LEN_TO_SPLIT: 255 characters are accepted, 256 are not
            expr = expr + ' ' * (rng.choice([254, 255, 256, 257, 299]) - len(expr)) if len(expr) < 250 else expr
        expr = expr[:300] or ' '
        ops.append('cx %d %s %d' % (rng.randrange(8), hx(expr), cx_t(rng)))
    return ops


def gen_width(rng):
    """width / sign boundaries (tools/narrowing/C20.txt): tv_sec at 2^31 and 2^32 (stored into uint32_t: alarm.cpp:38/50), local seconds wrapping
    below 0 and above 2^32 (uint32 + int: alarm.cpp:192/198), time-zone offsets up to the int limit, seconds_of_day at the int limits"""
    fam = rng.randrange(6)
    kind = rng.choice(['wk', 'wd', 'os', 'cr'])
    sod = rng.choice([0, 1, D - 1, 43200, rng.randrange(D)])
    a = {'kind': kind, 'sod': sod, 'mask': 127, 'wd': True}
    pre = ['calmask 127'] if kind == 'wd' else []
    if fam == 0:      # wall clock crosses 2^31 s (2038-01-19 03:14:08) between arming and firing
        w0 = (2 ** 31 - rng.choice([1, 2, 60, 3600, D])) * 1000 + rng.choice([0, 500, 999])
        ops = pre + ['new 0 %s' % kind, 'tz 0 %d' % rng.choice([0, 480, -300]), init_line(0, a), 'wall %d' % w0, 'en 0', 'adv %d' % rng.choice([999, 1000, 2000, 3600000]),
                     'adv %d' % (D * 1000), 'rf 0', 'adv %d' % (D * 1000)]
    elif fam == 1:    # wall clock near / across 2^32 s (2106-02-07 06:28:16): tv_sec no longer fits the uint32_t
        w0 = (U32 - rng.choice([1, 2, 60, 3600, D, 2 * D, 8 * D, 9 * D, 367 * D, 368 * D])) * 1000 + rng.choice([0, 999])
        ops = pre + ['new 0 %s' % kind, 'tz 0 %d' % rng.choice([0, 0, 480, -300]), init_line(0, a), 'wall %d' % w0, 'en 0', 'adv 1000', 'adv %d' % (D * 1000), 'rf 0',
                     'adv %d' % (7 * D * 1000), 'dis 0', 'en 0', 'adv %d' % (D * 1000), 'wall %d' % ((U32 + rng.choice([0, 1, D, 100 * D])) * 1000), 'en 0', 'rf 0', 'adv %d' % (D * 1000)]
    elif fam == 2:    # local time before 1970: UTC in the first hours of the epoch with a negative zone (uint32 wrap of the local start)
        z = rng.choice([-1, -60, -300, -720, -1440, -100000])
        w0 = rng.choice([0, 1, 59, 3600, -z * 60 - 1, -z * 60, -z * 60 + 1, rng.randrange(0, 2 * D)]) * 1000
        ops = pre + ['new 0 %s' % kind, 'tz 0 %d' % z, init_line(0, a), 'wall %d' % max(0, w0), 'en 0', 'adv 1000', 'adv %d' % (D * 1000), 'rf 0', 'adv %d' % (D * 1000)]
    elif fam == 3:    # time-zone offsets beyond +-24 h up to the int limit of minutes*60
        z = rng.choice([1441, -1441, 2880, -2880, 100000, -100000, 35791394, -35791394, 35791393, 12345678, -12345678])
        day = rng.randrange(1000, 40000)
        ops = pre + ['new 0 %s tz0:%d,rf0' % (kind, rng.choice([0, -z, z // 2])), 'tz 0 %d' % z, init_line(0, a), 'wall %d' % ((day * D + rng.randrange(D)) * 1000), 'en 0', 'adv %d' % (D * 1000),
                     'tz 0 %d' % (-z), 'rf 0', 'adv %d' % (D * 1000), 'adv %d' % (D * 1000)]
    elif fam == 4:    # seconds_of_day at the int limits / just outside [0, 86400): rejected, state unchanged
        bad = rng.choice([D, D + 1, -1, 2147483647, -2147483648, 2147483646, -2147483647, 65536, 65535 + D, 32768 + D])
        ops = ['new 0 wk in0:%d:1111111:1' % bad, 'init 0 %d 1111111 1' % bad, 'en 0', 'init 0 %d 1111111 1' % sod, 'en 0', 'init 0 %d 1111111 1' % bad, 'adv %d' % (D * 1000), 'dis 0',
               'init 0 %d 1111111 1' % bad, 'en 0', 'wk %d 1111111 %d' % (max(0, bad), rng.randrange(U32)), 'os %d %d' % (max(0, bad), rng.randrange(U32))]
    else:             # cron alarm with a raw expression string (names, ?), re-initialised while idle / running / from a rejected string
        good = rng.choice(['0 0 12 ? * MON-FRI', '*/20 30 8 1,15 JAN,jul *', '0 0 0 ? feb sun', '59 59 23 31 DEC ?', '0x0 010 0xC * * 0-7'])
        badx = rng.choice(['0 0 12 ? * MON-FUN', '* * * * *', '* * * * * * *', '60 * * * * *', '0 0 0 * JANU *', ' '])
        day = rng.randrange(1000, 47000)
        ops = ['new 0 cr', 'tz 0 %d' % rng.choice([0, 480, -300]), 'initx 0 %s' % hx(badx), 'en 0', 'initx 0 %s' % hx(good), 'wall %d' % ((day * D + rng.randrange(D)) * 1000), 'en 0',
               'initx 0 %s' % hx(good), 'adv %d' % (D * 1000), 'dis 0', 'initx 0 %s' % hx(badx), 'en 0', 'adv %d' % (31 * D * 1000), 'adv %d' % (366 * D * 1000)]
    return ops


def gen_state_derived(rng):
    """lesson (g): follow-up inputs EQUAL TO the cached state of ONE armed object - the same specification again (rejected while armed,
    accepted while idle), setTimezone to the same offset, a calendar update that changes nothing, enable() twice, refresh at the exact
    armed instant / one ms before / after, a backward wall-clock jump onto or before the instant just served followed by refresh,
    disable+enable or a re-initialisation with the same values (the next target must not be the served one)"""
    kind = rng.choice(['wk', 'wd', 'os', 'cr'])
    tzm = rng.choice([0, 0, 480, -300, 345])
    day = rng.randrange(10, 47000)
    sod = rng.choice([0, 1, D - 1, 43200, rng.randrange(D)])
    a = {'kind': kind, 'sod': sod, 'mask': rng.choice([127, 127, 1 << ((day + 4) % 7), rng.randrange(1, 128)]), 'wd': True, 'tz': tzm}
    T = day * D + sod - tzm * 60                  # UTC instant of local `sod` on `day`
    lead = rng.choice([1, 2, 60, 3600])
    ms = rng.choice([0, 1, 999])
    same = [init_line(0, a), 'tz 0 %d' % tzm, 'en 0', 'rf 0', 'calmask 127', 'calsp -', 'cb 0']
    ops = (['calmask 127'] if kind == 'wd' else []) + ['new 0 %s%s' % (kind, rng.choice(['', '', ' rf0', ' en0', ' tz0:%d' % tzm, ' in0:%d:%s:1' % (sod, mask_text(a['mask']) if kind == 'wk' else '-')])),
           'tz 0 %d' % tzm, init_line(0, a), init_line(0, a), 'wall %d' % max(0, (T - lead) * 1000 + ms), 'en 0']
    for _ in range(rng.choice([1, 2, 4])):
        ops.append(rng.choice(same))
    fam = rng.randrange(5)
    to_fire = lead * 1000 - ms
    if fam == 4:      # re-initialise ONE object with exactly one piece of its cached specification changed (the rest equal): nothing may be skipped
        b = dict(a)
        which = rng.choice(['sod', 'sod', 'mask', 'wd'])
        if which == 'sod': b['sod'] = (sod + rng.choice([1, 60, 3600, D - 1, 43200])) % D
        elif which == 'mask': b['mask'] = a['mask'] ^ (1 << rng.randrange(7)) or 1
        else: b['wd'] = not a['wd']
        if kind == 'wd': ops.insert(0, 'calmask %d' % rng.choice([62, 65, 31]))          # mixed calendar: the workday flag matters
        mid = rng.choice([[], ['adv %d' % to_fire], ['adv %d' % (to_fire // 2)]])
        ops += mid + ['dis 0', init_line(0, b), 'en 0', 'dis 0', init_line(0, a), 'en 0', rng.choice(['dis 0', 'cl 0']), init_line(0, b), 'tz 0 %d' % tzm, 'en 0',
                      'adv %d' % (D * 1000), 'adv %d' % (D * 1000)]
    elif fam == 0:    # refresh exactly at / around the armed instant, then the same calls again
        ops += ['adv %d' % max(0, to_fire - 1), 'rf 0', 'adv 1', 'rf 0', 'rf 0', 'adv 1', 'rf 0', 'en 0', init_line(0, a)]
    elif fam == 1:    # served, then the wall clock jumps back onto / before the served instant (+0 s): the same target must not come again
        back = rng.choice([0, 1, 999, 1000, lead * 1000, 3600000, 86400000])
        ops += ['adv %d' % to_fire, 'wall %d' % max(0, T * 1000 - back), rng.choice(['rf 0', 'dis 0', 'adv 0', 'en 0']), 'en 0', 'adv %d' % min(back, 1000), 'adv 1000',
                'dis 0', init_line(0, a), 'tz 0 %d' % tzm, 'en 0', 'adv %d' % (back + 1000), 'adv %d' % (D * 1000)]
    elif fam == 2:    # early wake-up (monotonic ahead), then everything unchanged is applied again inside the served second
        k = rng.choice([1, 5, 20])
        ops += ['mono %d' % k, 'adv %d' % max(0, to_fire - k)] + [rng.choice(same) for _ in range(3)] + ['dis 0', init_line(0, a), 'en 0', 'adv %d' % k, 'adv 1000', 'adv %d' % (D * 1000)]
    else:             # idle object: same specification twice, same zone twice, cleanup twice, then armed again
        ops += ['dis 0', 'dis 0', init_line(0, a), init_line(0, a), 'tz 0 %d' % tzm, 'cl 0', 'cl 0', init_line(0, a), 'tz 0 %d' % tzm, 'tz 0 %d' % tzm, 'en 0', 'en 0', 'adv %d' % to_fire, 'adv %d' % (D * 1000)]
    ops += ['adv %d' % (D * 1000)]
    return ops


def gen_faults(rng):
    """gettimeofday() failure at chosen points (op `gtod 0|1`, callback acts gt0 / gt1): enable / refresh / expiry / calendar update /
    remainSeconds while the clock cannot be read, recovery afterwards; and the life time of the WorkdayCalendar object: alarms that are
    not enabled (never enabled, disabled, failed enable, idle after a failed re-arm) outlive the calendar (op `caldel`), are re-initialised
    (rejected: no calendar), cleaned up and destroyed after it"""
    fam = rng.randrange(4)
    day = rng.randrange(10, 47000)
    sod = rng.choice([0, 1, D - 1, rng.randrange(D)])
    T = day * D + sod
    lead = rng.choice([1, 60, 3600])
    if fam == 3:      # a calendar update inside which some subscribers go idle (and unsubscribe) while the others must still be refreshed
        n = rng.choice([2, 3, 4])
        wds = [rng.random() < 0.5 for _ in range(n)]
        if all(wds) or not any(wds): wds[rng.randrange(n)] = not wds[0]
        ops = ['calmask 62', 'wall %d' % ((day * D + rng.randrange(D)) * 1000)]
        for i in range(n):
            ops += ['new %d wd' % i, 'tz %d 0' % i, 'init %d %d - %d' % (i, rng.choice([sod, rng.randrange(D)]), 1 if wds[i] else 0)]
        for i in rng.sample(range(n), n): ops += ['en %d' % i]
        for _ in range(rng.choice([1, 2, 3])):
            ops += [rng.choice(['calmask 0', 'calmask 127', 'calmask 62', 'calmask 65', 'calsp %d:%d' % (day + rng.randrange(3), rng.randrange(2))])]
            if rng.random() < 0.5: ops += ['adv %d' % rng.choice([1000, D * 1000])]
        for i in range(n): ops += ['en %d' % i]
        ops += ['calmask 62', 'adv %d' % (D * 1000), 'adv %d' % (3 * D * 1000)]
        return ops
    if fam == 0:
        kinds = [rng.choice(['wk', 'wd', 'os', 'cr']) for _ in range(rng.choice([1, 2, 3]))]
        ops = ['calmask 127']
        for i, k in enumerate(kinds):
            sc = rng.choice(['', '', ' gt0,rf%d,gt1' % i, ' gt0', ' gt0,en%d,gt1,en%d' % (i, i), ' gt0,dis%d,en%d,gt1' % (i, i), ' gt0,cm62,gt1'])
            ops += ['new %d %s%s' % (i, k, sc), 'tz %d 0' % i, init_line(i, {'kind': k, 'sod': sod, 'mask': 127, 'wd': True})]
        ops += ['wall %d' % ((T - lead) * 1000)]
        for i in range(len(kinds)):
            ops += rng.choice([['en %d' % i], ['gtod 0', 'en %d' % i, 'gtod 1', 'en %d' % i], ['en %d' % i, 'gtod 0', 'rf %d' % i, 'gtod 1', 'en %d' % i]])
        ops += rng.choice([['gtod 0', 'adv %d' % (lead * 1000), 'gtod 1'], ['adv %d' % (lead * 1000 - 1), 'gtod 0', 'adv 1', 'adv 1000', 'gtod 1'], ['adv %d' % (lead * 1000)],
                           ['gtod 0', 'calmask 62', 'calsp -', 'gtod 1', 'calmask 127']])
        for i in range(len(kinds)):
            ops += ['en %d' % i]
        ops += ['adv %d' % (D * 1000), 'gtod %d' % rng.randrange(2), 'adv %d' % (D * 1000), 'gtod 1', 'adv %d' % (D * 1000)]
    elif fam == 1:
        n = rng.choice([1, 2, 3])
        ops = ['wall %d' % ((T - lead) * 1000)]
        how = []
        for i in range(n):
            h = rng.choice(['never', 'disabled', 'failed', 'idle-after-refresh', 'oneshot-done', 'uninit', 'cleaned'])
            how.append(h)
            ops += ['new %d wd%s' % (i, rng.choice(['', '', ' dis%d' % i])), 'tz %d 0' % i]
            if h != 'uninit': ops += ['init %d %d - 1' % (i, sod)]
        ops += ['calmask 127']
        for i, h in enumerate(how):
            if h == 'disabled': ops += ['en %d' % i, rng.choice(['dis %d' % i, 'cl %d' % i])]
            elif h == 'cleaned': ops += ['en %d' % i, 'cl %d' % i, 'init %d %d - 1' % (i, sod)]
        for i, h in enumerate(how):
            if h == 'failed': ops += ['calmask 0', 'en %d' % i, 'calmask 127']
            elif h == 'idle-after-refresh': ops += ['en %d' % i, 'calmask 0', 'calmask 127']
        if rng.random() < 0.3: ops += ['new 3 wk', 'init 3 %d 1111111 1' % sod, 'tz 3 0', 'en 3']
        ops += ['caldel', 'caldel', 'calmask 62']
        for i in rng.sample(range(n), n):
            ops += rng.choice([['del %d' % i], ['init %d %d - 1' % (i, sod), 'en %d' % i, 'del %d' % i], ['cl %d' % i, 'en %d' % i, 'rf %d' % i, 'dis %d' % i, 'del %d' % i], ['tz %d 60' % i, 'rf %d' % i]])
        ops += ['adv %d' % (lead * 1000), 'adv %d' % (D * 1000)]
    else:             # caldel refused while a workday alarm is enabled (bad-op on both sides), accepted once it went idle by itself
        ops = ['calmask 127', 'new 0 wd', 'tz 0 0', 'init 0 %d - 1' % sod, 'wall %d' % ((T - lead) * 1000), 'en 0', 'caldel',
               rng.choice(['calmask 0', 'dis 0', 'cl 0', 'gtod 0', 'adv %d' % (lead * 1000)])]
        ops += ['rf 0', 'caldel', 'gtod 1', 'en 0', 'del 0', 'new 0 wd', 'init 0 1 - 1', 'en 0']
    return ops


def gen_reads(rng, directed=None):
    """the wall clock MOVES between two looks at it inside one library call (op `skew sub_us inc_us step_ms`): the first gettimeofday() of a
    call answers S.<ms><sub>, every later one first + step + k*inc - a second boundary passes (999900 +200 us, 999999 +1 us), the clock stands
    on the boundary (000000, 000001), an NTP step of +1 s / +1 h / -1 s falls between the readings.  Arming by enable(), refresh(), a calendar
    update, the re-arm of an expiry and a refresh from inside the callback; instants 1 s / 2 s / 1 min / 1 h / 1 day after the first reading's
    second; the armed delay is then measured exactly: `mono d-1` must not fire, `mono 1` must (d = 1000*(T - S) - ms of the FIRST reading)"""
    if directed:
        ms, sub, inc, step, dist, kind, path, tzm = directed
    else:
        ms, sub = rng.choice([(999, 900), (999, 999), (0, 0), (0, 1), (999, 0), (rng.randrange(1000), rng.randrange(1000))])
        inc = rng.choice([200, 200, 1, 100, 1000, 0, 999999])
        step = rng.choice([0, 0, 0, 1000, 3600000, -1000, 1, -1])
        if inc == 0 and step == 0: inc = 200
        dist = rng.choice([1, 1, 2, 2, 60, 3600, D])
        kind = rng.choice(['os', 'wk', 'wd', 'cr'])
        path = rng.choice(['en', 'en', 'rf', 'expiry', 'cal', 'script-rf'])
        tzm = rng.choice([0, 0, 480, -300, 330])
    if path == 'cal': kind = 'wd'
    if path in ('expiry', 'script-rf') and kind == 'os': kind = 'wk'
    S = rng.randrange(10, 40000) * D + rng.randrange(D)
    T = S + dist
    a = {'kind': kind, 'sod': (T + tzm * 60) % D, 'mask': 127, 'wd': True}
    d = dist * 1000 - ms
    k = {'os': 'os', 'wk': 'wk', 'wd': 'wd', 'cr': 'cr'}[kind]
    ops = ['calmask 127', 'new 0 %s%s' % (k, ' rf0' if path == 'script-rf' else ''), 'tz 0 %d' % tzm, init_line(0, a)]
    skew = 'skew %d %d %d' % (sub, inc, step)
    later = (rng.random() < 0.25) if not directed else (dist == 2 and step == 0)
    if later: ops += ['gtlater 1']          # every reading after the first one of a library call FAILS
    if path == 'en':
        ops += ['wall %d' % (S * 1000 + ms), skew, 'en 0']
    elif path in ('rf', 'cal'):
        ops += ['wall %d' % ((S - 5) * 1000), 'en 0', 'wall %d' % (S * 1000 + ms), skew, 'rf 0' if path == 'rf' else 'calmask 127']
    else:             # the previous day's instant T - D is served while the wall clock reads S.<ms>: the re-arm is the arming under test
        ops += ['wall %d' % ((T - D - 3) * 1000), 'en 0', 'wall %d' % (S * 1000 + ms), skew, 'mono 3000']
    ops += ['mono %d' % (d - 1), 'mono 1', 'en 0', 'skew 0 0 0', 'gtlater 0', 'adv %d' % (D * 1000)]
    return ops


def gen(rng, tier):
    n = 250 if tier == 'quick' else 4000
    # malformed stream: both sides must answer bad-op
    yield ['wk 1 1111111', 'wk x 1111111 5', 'wk 1 1111112 5', 'wk 1 1111111 4294967296', 'os 1', 'wd 1 2 62 - 5', 'wd 1 1 256 - 5',
           'wd 1 1 62 5:2 5', 'wd 1 1 62 5:1, 5', 'new 4 wk', 'new 0 cron', 'en 0', 'new 0 wk', 'new 0 wk', 'init 0 1 1111111', 'init 0 abc 1111111 1',
           'tz 0 1441', 'tz 0 -1441', 'tz 0 05', 'adv 007', 'new 1 wk cl9', 'new 1 wk tz0', 'new 1 wk tz0:1441', 'new 1 wk in0:5:1111111', 'new 1 wk in0:5:2:1', 'new 1 cron', 'initc 0 * * * * *', 'initc 9 * * * * * *', 'initc 0 * * * * * MON', 'new 1 wk del1', 'new 1 wk rf9', 'new 1 wk rf0,,rf0', 'new 1 wk cs5:1+', 'cron * * * * *  5',
           'cron * * * * * * x', 'cron 08 * * * * * 5', 'cron 1-2-3 * * * * * 5', 'cron 1//2 * * * * * 5', 'cron */x * * * * * 5', 'cron , * * * * * 5', 'cron MON * * * * * 5', 'cx 8 2a 5', 'cx 0 2 5', 'cx 0 00 5', 'cx 0 80 5', 'cx 0 zz 5', 'cx 0 - 5', 'cx 0 2a 4294967296', 'initx 0 zz', 'initx 9 2a', 'new 1 cr ic0', 'new 1 cr ic0:zz', 'new 1 cr ic9:2a', 'tz 0 35791395', 'tz 0 -35791395', 'init 0 2147483648 1111111 1', 'init 0 -2147483649 1111111 1', 'del 2', 'adv -1', 'adv 40000000001', 'wall 4294967296000', 'calmask 256', 'calsp 5', 'frob', 'dis 3', 'rf 2', 'cb 1', 'gtod 2', 'skew 1000 0 0', 'skew 0 10000001 0', 'skew 0 0 4000001', 'skew 0 0', 'skew 0 0 +1', 'skew 00 0 0', 'gtlater 2', 'gtlater', 'gtod', 'caldel 1', 'new 1 wk gt2', 'new 1 wk gt']
    # directed
    yield ['wk 36000 1111111 1700000000', 'wk 0 0000000 1700000000', 'wk 86399 0000100 1699999999', 'os 0 86399', 'os 0 86400',
           'wd 30600 1 62 - 1700000000', 'wd 30600 1 0 - 1700000000', 'wd 0 1 0 20042:1 1700000000', 'wd 0 1 0 20043:1 1700000000']
    yield ['new 0 wk', 'init 0 36000 1111111 1', 'tz 0 0', 'wall 1700006400000', 'en 0', 'adv 1', 'dis 0', 'adv 1800000', 'en 0']   # disable/enable
    yield ['wall 1700006400000', 'calmask 0', 'calsp 19736:1', 'new 0 wd', 'init 0 0 - 1', 'en 0', 'adv 1000', 'adv 5000000000']   # > 49.7 days
    yield ['new 0 os', 'init 0 100 - 1', 'wall 86400000000', 'en 0', 'mono 5', 'adv 99995', 'adv 5', 'adv 86400000', 'en 0', 'adv 86400000']
    # cron: parser errors (answered init=0 by both), Sunday as 7, dom AND dow, leap day, steps from a bare number
    yield ['cron 60 * * * * * 5', 'cron * * 24 * * * 5', 'cron * * * 0 * * 5', 'cron * * * 32 * * 5', 'cron * * * * 13 * 5', 'cron * * * * 0 * 5',
           'cron * * * * * 8 5', 'cron 5-3 * * * * * 5', 'cron */0 * * * * * 5', 'cron 0 0 0 * * 7 1700000000', 'cron 0 0 0 13 * 5 1700000000',
           'cron 0 0 0 29 2 * 1700000000', 'cron 50/4 * * * * * 1700000000', 'cron 59 59 23 31 12 * 1700000000', 'cron 0 0 0 1 1 * 4102444799',
           'cron 0 0 12 1,15 * 1-5 951782400']
    # ccronexpr's year horizon: exactly 4 calendar years ahead is still found, 2096 -> 2104 is not, an impossible date is not;
    # enable() of a real CronAlarm fails (stays idle) when there is no next instant
    yield ['cron 0 0 0 29 2 * 1709164800', 'cron 0 0 0 29 2 * 1709164799', 'cron 0 0 0 29 2 * 1709251200', 'cron 0 0 0 29 2 * 3981398400',
           'cron 0 0 0 29 2 * 4107542400', 'cron 0 0 0 30 2 * 1700000000', 'cron 0 0 0 31 4,6,9,11 * 1700000000', 'cronen 0 0 0 30 2 * 1700000000',
           'cronen 0 0 0 29 2 * 1709164800', 'cronen 0 0 0 29 2 * 3981398400', 'cron 0 0 0 1 1 1 1700000000', 'cron 0 0 0 1 1 1 1704067200',
           'cron 59 59 23 31 12 * 1704067199', 'cron 59 59 23 29 2 * 1709251199']
    # a callback that refreshes its own alarm on an early wake-up (monotonic ahead of wall): the served instant must not be armed again
    yield ['new 0 wk rf0', 'init 0 100 1111111 1', 'tz 0 0', 'wall 86400000000', 'en 0', 'mono 5', 'adv 99995', 'adv 5', 'adv 86400000']
    # destruction: enabled workday alarm, and one whose enable() failed, then a calendar update
    yield ['new 0 wd', 'init 0 100 - 1', 'en 0', 'del 0', 'calmask 62', 'calmask 0', 'new 0 wd', 'init 0 100 - 1', 'en 0', 'del 0', 'calsp -']
    yield ['new 0 wd del1,cm0', 'new 1 wd', 'init 0 100 - 1', 'init 1 200 - 1', 'en 0', 'en 1', 'adv 86400000', 'calmask 62']
    # every usec class x crossing increment x NTP step, instants 1 s and 2 s away, through enable() and through the re-arm of an expiry
    for (ms, sub, inc) in [(999, 900, 200), (999, 999, 1), (0, 0, 200), (0, 1, 200)]:
        for step in [0, 1000, 3600000, -1000]:
            for dist in [1, 2, 3600]:
                yield gen_reads(rng, (ms, sub, inc, step, dist, 'os' if dist != 3600 else 'cr', 'en', 0))
            yield gen_reads(rng, (ms, sub, inc, step, 1, 'cr', 'expiry', 0))
    for _ in range(n // 2):
        yield gen_reads(rng)
    for _ in range(n):
        yield gen_pure(rng)
    for _ in range(n):
        yield gen_history(rng, rng.choice([4, 8, 16, 30]))
    for _ in range(max(10, n // 8)):
        yield gen_far(rng)
    for _ in range(n // 2):
        yield gen_boundary(rng)
    for _ in range(n // 2):
        yield gen_cron(rng)
    for _ in range(n // 2):
        yield gen_cron_sparse(rng)
    for _ in range(n // 2):
        yield gen_cx(rng)
    for _ in range(n // 3):
        yield gen_width(rng)
    for _ in range(n // 2):
        yield gen_state_derived(rng)
    for _ in range(n // 2):
        yield gen_faults(rng)


def nontrivial(ops, model_lines):
    tags = ' '.join(l for l in model_lines if l.startswith('B '))
    keys = ('skew-', 'clock-failure', 'calendar-destroyed', 'same-again', 'refresh-same-target', 'cx-next', 'cx-none', 'initx-ok', 'cron-none-year-horizon', 'cron-4-years', 'cron-years', 'cron-enable', 'fire-', 'arm-far', 'rearm-far', 'wk-week', 'wd-week', 'wd-far', 'wd-weeks', 'os-week', 'cron-month', 'cron-year', 'cron-day', 'destroy-subscribed', 'script-run')
    return 1 if any(k in tags for k in keys) else None


def fingerprint(ops, d):
    import hashlib, re
    kinds = ' '.join(o.split()[0] for o in ops)
    return hashlib.sha1(kinds.encode()).hexdigest()[:12]


LEVEL_TEXT = ('Lean 4 theorems over a model of the alarm module: the next-instant computation of weekly / one-shot / workday alarms returns the '
              'EARLIEST matching instant strictly after t for every t, seconds-of-day, mask and calendar (367-day scan bound explicit, counterexample '
              'beyond it); time-zone round trip; armed delay = exact wall-clock distance in ms for every distance (64-bit conversion; the 32-bit '
              'conversion of the unpatched tree is refuted by a concrete witness); targets strictly increase across re-arms even on early wake-ups and wall-clock jumps; '
              'one-shot fires once per enable; a disabled alarm has no armed timer; once per instant over every scripted world execution.  Cron: ccronexpr itself is '
              'transcribed (parser on raw bytes + cron_next search over struct tm/timegm) and proved sound - every accepted expression has non-empty field sets, every '
              'returned instant is > t, matches all six fields and is the EARLIEST such instant (do_next skips nothing) - next to a reference proved to return the EARLIEST match (with the year horizon).  Tied to the real code on every run by '
              'differential execution (probe subclasses + real alarms on the real loop under virtual wall/monotonic clocks, direct cron_parse_expr calls, ASan+UBSan)')
LEVEL_NOTE = ('trusted: Lean kernel, hand-written model + trace-acceptor tie (coverage bounded by the generator, measured), C02 timer semantics, clock '
              'interposition, glibc timegm/gmtime_r = the proved proleptic Gregorian functions (compared on every cron case); PARTIAL: the transcribed ccronexpr search '
              'is proved minimal GIVEN that it answers; that it answers whenever the reference does (year horizon exact, fuel sufficient) is checked on every case, not a theorem; the weekly/one-shot/workday theorems '
              'exclude local computations that wrap 2^32 (last 9 / 368 days before 2106-02-07) and local times before 1970 - both now with counterexample theorems saying exactly '
              'what the code does there')
TECHNIQUE = 'Lean 4 proofs (earliest-instant characterisation, arming arithmetic, state-machine invariants) + model/implementation correspondence check'
DESIGN_REF = 'DESIGN.md §6 C20, §7 row 16'
