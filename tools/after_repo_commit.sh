#!/bin/bash
# lead: run after every commit to /repo — refreshes known_findings.txt (fixed: lines), the reference tree hashes and MANIFEST.json
cd /verif && python3 tools/record_fixes.py && python3 tools/ref_tree.py record && python3 tools/gen_manifest.py
