#!/bin/bash
# lead: tools/apply_fix.sh patches/<ID>-nn-slug   — applies the .diff to /repo, syntax-checks the touched .cpp files with the repo flags, commits with the .msg
P=$1; cd /repo || exit 2
git apply --check /verif/$P.diff || { echo "does not apply"; exit 1; }
git apply /verif/$P.diff
for f in $(git diff --name-only | grep -E '\.cpp$'); do
  g++ -std=gnu++11 -Wall -Wextra -Werror -Wno-missing-field-initializers -I/repo/modules -I/repo/3rd-party -DMODULE_ID='"x"' -DLOG_MODULE_ID='"x"' -DTBOX_VERSION_MAJOR=1 -DTBOX_VERSION_MINOR=1 -DTBOX_VERSION_REVISION=1 -fsyntax-only $f || { echo "COMPILE FAIL $f"; git checkout -- .; exit 1; }
done
head -1 /verif/$P.msg | grep -q '^fix:' || { echo "msg does not start with fix:"; git checkout -- .; exit 1; }
git commit -qa -F /verif/$P.msg && git log --oneline -1 | cut -c1-120
