#!/usr/bin/env python3
"""Splices notes_s4/*.md (00-head first, then packages in id order) into DESIGN.md between <!-- S4-BEGIN --> and <!-- S4-END -->
(the block is inserted before the seeded-table heading when the markers are not there yet)."""
import glob, os, re
D = '/verif/DESIGN.md'
s = open(D).read()
files = sorted(glob.glob('/verif/notes_s4/*.md'))
body = '\n'.join(open(f).read().rstrip() + '\n' for f in files)
block = '<!-- S4-BEGIN -->\n' + body + '<!-- S4-END -->\n'
if '<!-- S4-BEGIN -->' in s:
    s = re.sub(r'<!-- S4-BEGIN -->.*?<!-- S4-END -->\n', lambda m: block, s, flags=re.S)
else:
    marker = '### Which checks catch which seeded changes'
    s = s.replace(marker, block + '\n' + marker, 1)
open(D, 'w').write(s)
print('spliced', len(files), 'notes')
