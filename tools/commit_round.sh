#!/bin/bash
# lead: tools/commit_round.sh <ID> "<message>"  — re-runs the quick check of <ID> on /repo (must exit 0 and write valid evidence),
# stages that package's files only, regenerates MANIFEST.json and commits.
ID=$1; MSG=$2; cd /verif
out=$(./check $ID --tier quick 2>&1); rc=$?
echo "$out" | tail -2 | cut -c1-200
if [ $rc -ne 0 ] && ! [ "$3" = force ]; then echo "check $ID exits $rc - NOT committed"; echo "$out" | grep -E "^VIOLATION|^KNOWN" | head; exit 1; fi
python3-vt -c "import json,jsonschema; jsonschema.validate(json.load(open('evidence/$ID.json')), json.load(open('/root/.vp/EVIDENCE.schema.json')))" || { echo "evidence invalid"; exit 1; }
git add lean/TboxModel/$ID lean/Driver/$ID*.lean props/$ID corpus/$ID patches/$ID-* evidence/$ID.json 2>/dev/null
git add -u lean/TboxModel/$ID props/$ID corpus/$ID 2>/dev/null
python3 tools/gen_manifest.py >/dev/null && git add MANIFEST.json tools/claimed.txt
git commit -qm "$MSG" && git log --oneline -1
