#!/usr/bin/env python3
"""Regenerates /verif/MANIFEST.json from the plugins present under props/."""
import subprocess, json, os, sys
sys.path.insert(0, os.path.dirname(os.path.abspath(__file__)))
import vlib

ALL = ['C%02d' % i for i in range(1, 21)]
NA_REASON = {}   # property id -> reason, for properties deliberately not claimed

def main():
    checks, na, engines = [], [], []
    targets = []
    for pid in ALL:
        claimed = open(os.path.join(vlib.VERIF, 'tools', 'claimed.txt')).read().split()
        if pid not in claimed or not os.path.exists(os.path.join(vlib.VERIF, 'props', pid, 'plugin.py')):
            na.append({'property_id': pid, 'reason': NA_REASON.get(pid, 'no check registered yet in this revision (work in progress, see DESIGN.md §6 %s); not a claim that the technique cannot apply' % pid)})
            continue
        P = vlib.load_plugin(pid)
        # only modules whose source is tracked by git: a builder's uncommitted work must never be named by the manifest
        tracked = set(subprocess.run(['git', '-C', '/verif', 'ls-files', 'lean'], capture_output=True, text=True).stdout.split())
        targets += [m for m in P.LEAN_MODULES if 'lean/' + m.replace('.', '/') + '.lean' in tracked] + [P.EXE]
        checks.append({
            'property_id': pid,
            'quick_cmd': './check %s --tier quick' % pid,
            'thorough_cmd': './check %s --tier thorough' % pid,
            'evidence_file': 'evidence/%s.json' % pid,
            'replay_cmd_template': './check %s --replay {path}' % pid,
            'engine': 'lean4-proof+correspondence',
            'level_claimed': {'category': getattr(P, 'LEVEL', 'proof'), 'text': P.LEVEL_TEXT, 'design_ref': P.DESIGN_REF},
            'level_note': P.LEVEL_NOTE,
            'technique': P.TECHNIQUE,
        })
    man = {
        'version': 1,
        'setup_cmd': '/verif/tools/setup.sh ' + ' '.join(targets),
        'hooks': {
            'guard': 'TBOX_VERIF',
            'enable': 'harness sources are compiled by tools/vlib.py with -DTBOX_VERIF=1 from /repo working tree (no change to the repo build)',
            'baseline_off_cmd': 'cmake --build /repo/_build -j16 && ctest --test-dir /repo/_build -j8 --timeout 900',
            'source_commits': json.load(open(os.path.join(vlib.VERIF, 'tools', 'hook_commits.json'))) if os.path.exists(os.path.join(vlib.VERIF, 'tools', 'hook_commits.json')) else [],
            'add_only': True,
        },
        'engines': [{'name': 'lean4-proof+correspondence', 'path': 'check', 'serves_properties': [c['property_id'] for c in checks],
                     'kind_free_text': 'Lean 4 theorems over executable models (lean/TboxModel), compiled Lean drivers, C++ harnesses built from the working tree, differential correspondence check (tools/vlib.py)'}],
        'checks': checks,
        'not_applicable': na,
        'notes': 'See DESIGN.md. ./check <id> [--tier quick|thorough]; VERIF_SEED selects the generator seed; VERIF_REPO overrides the repo root (used for mutation self-tests).',
    }
    with open(os.path.join(vlib.VERIF, 'MANIFEST.json'), 'w') as fh:
        json.dump(man, fh, indent=1)
        fh.write('\n')
    print('MANIFEST.json: %d checks, %d not claimed' % (len(checks), len(na)))

if __name__ == '__main__':
    main()
