#!/bin/bash
# usage: tools/harmless_eval.sh <patch> <ID> [<ID> ...]   applies a behaviour-preserving patch in a scratch worktree and runs the given checks (quick)
P=$1; shift
WT=/tmp/harmeval-$$
git -C /repo worktree add --detach $WT HEAD >/dev/null 2>&1 || exit 2
KEY=$(python3 -c "import hashlib,sys; print(hashlib.sha1(sys.argv[1].encode()).hexdigest()[:8])" $WT)
trap "git -C /repo worktree remove --force $WT >/dev/null 2>&1; rm -rf /verif/.cache/obj_scratch/$KEY /verif/.cache/*/harness_*_$KEY" EXIT
git -C $WT apply $P || { echo "$(basename $P): does not apply"; exit 2; }
cd /verif
for ID in "$@"; do
  out=$(VERIF_REPO=$WT ./check $ID --tier quick 2>&1)
  v=$(echo "$out" | grep -c "^VIOLATION"); nf=$(echo "$out" | grep "^VIOLATION" | grep -c "no-failing-input-found")
  echo "$(basename $P) $ID: violations=$v (no-failing-input=$nf) $(echo "$out" | grep -E '^\[C' | sed 's/.*cases=/cases=/' | cut -c1-80)"
  [ $v -gt 0 ] && echo "$out" | grep -A1 "^VIOLATION" | head -4 | cut -c1-300
  git checkout -- evidence/$ID.json 2>/dev/null
done
