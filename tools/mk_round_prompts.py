#!/usr/bin/env python3
"""usage: tools/mk_round_prompts.py notes.json  — writes /tmp/rp/round-<ID>.txt from tools/round_prompt.md for every ID in notes.json
(notes.json: {"ID": "round goals text", ...}); a common 'lessons' paragraph (tools/round_lessons.md) is appended to the goals."""
import json, sys, os
props = {json.loads(l)['id']: json.loads(l) for l in open('/verif/properties.jsonl')}
tmpl = open('/verif/tools/round_prompt.md').read()
lessons = open('/verif/tools/round_lessons.md').read()
notes = json.load(open(sys.argv[1]))
os.makedirs('/tmp/rp', exist_ok=True)
for ID, n in notes.items():
    s = tmpl.replace('__ID__', ID).replace('__TITLE__', props[ID]['title']).replace('__NOTES__', n + '\n\n' + lessons.replace('__ID__', ID))
    open('/tmp/rp/round-%s.txt' % ID, 'w').write(s)
    print(ID, len(s))
