#!/usr/bin/env python3
"""usage: tools/mk_seed_prompts.py ID:N:"file guidance" ...  — writes /tmp/seedprompt-ID-N.txt and creates the scratch worktree /tmp/seedwt-ID-N"""
import json, subprocess, sys
props = {json.loads(l)['id']: json.loads(l) for l in open('/verif/properties.jsonl')}
tmpl = open('/verif/tools/seed_prompt.md').read()
HARD = ("\n\nSteer towards the HARD kind of change: one that only manifests through a fault / errno path (EINTR, EAGAIN, a short read or write, ENOMEM/EMFILE-style failure of a system call), "
        "a size or count boundary (exactly full, 2^16, 2^31, 2^32, wrap-around), an OS-level effect (socket options, close/shutdown ordering, signal masks, file flags), a re-entrant call from inside a user callback, "
        "a rarely taken configuration, or a three-or-more-step history — while every ordinary scenario and the existing tests behave exactly as before.\n")
for a in sys.argv[1:]:
    ID, n, files = a.split(':', 2)
    p = props[ID]; wt = '/tmp/seedwt-%s-%s' % (ID, n)
    text = json.dumps({k: p[k] for k in ('id', 'title', 'statement', 'quantifier', 'anchors') if k in p}, indent=1)
    s = tmpl.replace('__WT__', wt).replace('__ID__', ID).replace('__N__', n).replace('__PROPERTY__', text)
    s += '\n\nPlease make your change in one of these files (areas of the anchored code where a regression would be plausible): ' + files + HARD
    open('/tmp/seedprompt-%s-%s.txt' % (ID, n), 'w').write(s)
    subprocess.run(['git', '-C', '/repo', 'worktree', 'add', '--detach', wt, 'HEAD'], capture_output=True)
    print(ID, n, wt)
