#!/bin/bash
# usage: tools/mutant.sh <prop> <patch-file | -e 'sed-expr' file> ...   runs ./check <prop> against a scratch worktree with the change applied
set -e
PROP=$1; shift
WT=/tmp/verif-mut-$$
git -C /repo worktree add --detach $WT HEAD >/dev/null 2>&1
trap "git -C /repo worktree remove --force $WT >/dev/null 2>&1; rm -rf /verif/.cache/obj/*/$(echo $WT | tr / _)* 2>/dev/null" EXIT
if [ "$1" = "-e" ]; then sed -i "$2" $WT/$3; git -C $WT diff --stat | tail -1; else git -C $WT apply "$1"; fi
cd /verif && VERIF_REPO=$WT ./check $PROP --tier ${TIER:-quick} 2>&1 | tail -${TAIL:-8}
echo "exit=${PIPESTATUS[0]}"
