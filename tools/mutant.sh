#!/bin/bash
# usage: tools/mutant.sh <prop> <patch-file | -e 'sed-expr' file> ...   runs ./check <prop> against a scratch worktree with the change applied
set -e
PROP=$1; shift
WT=/tmp/verif-mut-$$
git -C /repo worktree add --detach $WT HEAD >/dev/null 2>&1
KEY=$(python3 -c "import hashlib,sys; print(hashlib.sha1(sys.argv[1].encode()).hexdigest()[:8])" $WT)
trap "git -C /repo worktree remove --force $WT >/dev/null 2>&1; rm -rf /verif/.cache/obj_scratch/$KEY /verif/.cache/*/harness_*_$KEY 2>/dev/null" EXIT
if [ "$1" = "-e" ]; then sed -i "$2" $WT/$3; git -C $WT diff --stat | tail -1; else git -C $WT apply "$1"; fi
cd /verif && VERIF_REPO=$WT timeout ${MUT_TIMEOUT:-1200} ./check $PROP --tier ${TIER:-quick} 2>&1 | tail -${TAIL:-8}
echo "exit=${PIPESTATUS[0]}"
