#!/usr/bin/env python3
"""Rewrites the `fixed:` lines of known_findings.txt from the fix: commits of /repo (findings are kept)."""
import glob, os, subprocess
lines = subprocess.run(['git', '-C', '/repo', 'log', '--format=%h %s', '53edd72..HEAD'], capture_output=True, text=True).stdout.splitlines()[::-1]
msg2prop = {}
for f in glob.glob('/verif/patches/*.msg'):
    msg2prop[open(f).read().splitlines()[0].strip()] = os.path.basename(f).split('-')[0]
out = []
for l in lines:
    h, subj = l.split(' ', 1)
    if subj.startswith('fix:'):
        pid = msg2prop.get(subj.strip())
        if pid is None and 'Buffer::hasRead' in subj: pid = 'C07'
        if pid is None and 'ccronexpr do_next: drop' in subj: pid = 'C20'
        out.append('fixed: property=%s %s %s' % (pid or 'C??', h, subj[4:].strip()))
s = open('/verif/known_findings.txt').read()
head = s.split('# This file is never written at run time.\n')[0] + '# This file is never written at run time.\n'
findings = [l for l in s.splitlines() if l.startswith('finding:')]
open('/verif/known_findings.txt', 'w').write(head + '\n'.join(findings) + ('\n' if findings else '') + '\n'.join(out) + '\n')
print(len(out), 'fixed', len(findings), 'findings', [o for o in out if 'C??' in o])
