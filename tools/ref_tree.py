#!/usr/bin/env python3
"""Reference content hashes of the repository sources the checks were last validated against.

  tools/ref_tree.py record      rewrites tools/ref_tree.json from /repo (lead runs it after every commit to /repo)
  changed_files(repo)           -> sorted list of repo-relative source files whose content differs from the reference
                                   (added / removed / modified), used by ./check for the changed-source escalation.
"""
import hashlib, json, os, sys
HERE = os.path.dirname(os.path.abspath(__file__))
REF = os.path.join(HERE, 'ref_tree.json')
EXT = ('.cpp', '.h', '.hpp', '.c', '.cc')


def tree_hashes(repo):
    h = {}
    base = os.path.join(repo, 'modules')
    for d, dirs, fs in os.walk(base):
        dirs[:] = [x for x in dirs if not (d == base and x == 'tbox')]   # modules/tbox is a symlink to modules
        for f in fs:
            if f.endswith(EXT):
                p = os.path.join(d, f)
                try:
                    h[os.path.relpath(p, repo)] = hashlib.sha1(open(p, 'rb').read()).hexdigest()
                except OSError:
                    pass
    return h


def changed_files(repo):
    try:
        ref = json.load(open(REF))['files']
    except (OSError, ValueError, KeyError):
        return []
    cur = tree_hashes(repo)
    return sorted(f for f in set(ref) | set(cur) if ref.get(f) != cur.get(f))


if __name__ == '__main__':
    if sys.argv[1:] == ['record']:
        import subprocess
        head = subprocess.run(['git', '-C', '/repo', 'rev-parse', '--short', 'HEAD'], capture_output=True, text=True).stdout.strip()
        json.dump({'repo_head': head, 'files': tree_hashes('/repo')}, open(REF, 'w'), indent=0, sort_keys=True)
        print('recorded', head)
    else:
        print('\n'.join(changed_files(sys.argv[1] if len(sys.argv) > 1 else '/repo')))
