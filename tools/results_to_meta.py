#!/usr/bin/env python3
"""Folds seeded/RESULTS.md (written by tools/selftest_all.sh) back into seeded/<seed>/meta.json (latest evaluation)."""
import json, os, re
V = os.path.dirname(os.path.dirname(os.path.abspath(__file__)))
for line in open(V + '/seeded/RESULTS.md'):
    m = re.match(r'\| (C\d\d-\d+) \| (.*) \|', line)
    if not m: continue
    p = '%s/seeded/%s/meta.json' % (V, m.group(1))
    if not os.path.exists(p): continue
    meta = json.load(open(p)); r = m.group(2)
    if 'quick:caught' in r: meta['check_quick'] = 'caught'
    elif 'quick:silent' in r:
        meta['check_quick'] = 'silent'
        meta['check_thorough'] = 'caught' if 'thorough:caught' in r else 'silent'
    else: continue
    meta.setdefault('ran', []).append('tools/selftest_all.sh (re-evaluation)')
    json.dump(meta, open(p, 'w'), indent=1)
    print(m.group(1), r)
