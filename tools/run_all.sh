#!/bin/bash
# usage: tools/run_all.sh [tier=quick] [jobs=4] [ids...]   (VERIF_SEED honoured) — runs the checks on /repo, one summary line each
TIER=${1:-quick}; J=${2:-4}; shift 2 2>/dev/null
IDS=${*:-$(cat /verif/tools/claimed.txt)}
OUT=/tmp/runall-$$; mkdir -p $OUT; cd /verif
run1() { id=$1; s=$(date +%s); timeout 3600 ./check $id --tier $2 > $3/$id.log 2>&1; rc=$?; echo "$id rc=$rc $(( $(date +%s)-s ))s $(grep -c '^VIOLATION' $3/$id.log) viol $(grep -c '^KNOWN-FINDING' $3/$id.log) known :: $(tail -1 $3/$id.log | cut -c1-150)"; }
export -f run1
echo $IDS | tr ' ' '\n' | xargs -P $J -I{} bash -c "run1 {} $TIER $OUT"
echo "logs in $OUT"
