#!/bin/bash
# usage: tools/seed_eval.sh <ID> <N> [module-test-target ...]
# Confirms a seeded change delivered in /tmp/seed-<ID>-<N>/ (patch.diff, demo.cpp, build.sh, notes.md) and runs the
# check against it:  (1) fresh scratch worktree of /repo HEAD, demo must PASS; (2) apply patch, demo must FAIL;
# (3) existing tests of the touched modules still pass (targets given, built in the worktree); (4) ./check <ID> quick
# (and thorough if quick is silent) with VERIF_REPO=<worktree>.  Writes /verif/seeded/<ID>-<N>/{patch.diff,demo.cpp,build.sh,notes.md,meta.json}.
ID=$1; N=$2; shift 2
SRC=/tmp/seed-$ID-$N; WT=/tmp/seedeval-$ID-$N; OUT=/verif/seeded/$ID-$N
[ -f $SRC/patch.diff ] || { echo "no $SRC/patch.diff"; exit 2; }
rm -rf $WT; git -C /repo worktree prune; git -C /repo worktree add --detach $WT HEAD >/dev/null 2>&1 || exit 2
KEY=$(python3 -c "import hashlib,sys; print(hashlib.sha1(sys.argv[1].encode()).hexdigest()[:8])" $WT)
cleanup() { git -C /repo worktree remove --force $WT >/dev/null 2>&1; rm -rf /verif/.cache/obj_scratch/$KEY /verif/.cache/*/harness_*_$KEY; }
trap cleanup EXIT
mkdir -p $OUT; cp $SRC/patch.diff $SRC/demo.cpp $SRC/build.sh $SRC/notes.md $OUT/ 2>/dev/null
ORIGWT=/tmp/seedwt-$ID-$N; RUN=/tmp/seedrun-$ID-$N
run_demo() { rm -rf $RUN; mkdir -p $RUN; cp $SRC/demo.cpp $SRC/build.sh $RUN/; cp $SRC/*.h $SRC/*.hpp $RUN/ 2>/dev/null; sed -i "s#$ORIGWT#$WT#g; s#$SRC#$RUN#g" $RUN/build.sh $RUN/demo.cpp; (cd $RUN && bash ./build.sh >build.log 2>&1; [ -x ./demo ] || { echo "demo build failed: $(tail -3 build.log)" > demo.out; echo 97; exit; }; timeout 300 ./demo > demo.out 2>&1; echo $?); }
show() { tail -1 $RUN/demo.out 2>/dev/null | cut -c1-140; }
D0=$(run_demo); echo "demo on unchanged tree: exit=$D0 $(show)"
git -C $WT apply $SRC/patch.diff || { echo "patch does not apply to HEAD"; exit 2; }
D1=$(run_demo); echo "demo with the change   : exit=$D1 $(show)"
TESTS="not-run"
if [ $# -gt 0 ]; then
  cmake -G Ninja -S $WT -B $WT/_b -DCMAKE_BUILD_TYPE=RelWithDebInfo -DTBOX_ENABLE_TEST=ON -DCMAKE_CXX_FLAGS=-Wno-error >/dev/null 2>&1
  TESTS=""
  for t in "$@"; do
    cmake --build $WT/_b -j12 --target $t >/tmp/seedtest-$ID-$N.log 2>&1 || { TESTS="$TESTS $t:BUILD-FAIL"; continue; }
    b=$(find $WT/_b -name $t -type f | head -1)
    r=$( (cd $(dirname $b) && timeout 600 ./$t 2>&1 | grep -E "^\[  FAILED  \] [A-Za-z]" | sort -u | tr '\n' ' ') )
    TESTS="$TESTS $t:[${r:-all-passed}]"
  done
fi
echo "existing tests: $TESTS"
cd /verif
Q=$(VERIF_REPO=$WT ./check $ID --tier quick 2>&1 | grep -E "^VIOLATION|^KNOWN" | head -3); QRC=$([ -n "$Q" ] && echo caught || echo silent)
echo "check quick: $QRC"; echo "$Q" | cut -c1-200
T=""; TRC="not-run"
if [ "$QRC" = silent ]; then T=$(VERIF_REPO=$WT ./check $ID --tier thorough 2>&1 | grep -E "^VIOLATION|^KNOWN" | head -3); TRC=$([ -n "$T" ] && echo caught || echo silent); echo "check thorough: $TRC"; echo "$T" | cut -c1-200; fi
# the evidence file was rewritten by these runs against the scratch tree: restore the committed one
git -C /verif checkout -- evidence/$ID.json 2>/dev/null
python3 - "$ID" "$N" "$D0" "$D1" "$TESTS" "$QRC" "$TRC" "$Q$T" <<'PY'
import json,sys,os
ID,N,d0,d1,tests,q,t,lines=sys.argv[1:9]
out='/verif/seeded/%s-%s'%(ID,N)
notes=open(out+'/notes.md').read() if os.path.exists(out+'/notes.md') else ''
json.dump({'property':ID,'seed':int(N),'demo_exit_unchanged':d0,'demo_exit_changed':d1,'existing_tests':tests.strip(),
 'check_quick':q,'check_thorough':t,'check_output':lines.splitlines()[:3],'needs_to_manifest':'see notes.md',
 'ran':['tools/seed_eval.sh %s %s'%(ID,N)]},open(out+'/meta.json','w'),indent=1)
PY
rm -rf $RUN /tmp/seedtest-$ID-$N.log
