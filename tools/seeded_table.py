#!/usr/bin/env python3
"""Rewrites the seeded-change table in DESIGN.md (between the SEEDED-TABLE markers) from seeded/*/meta.json + patch.diff."""
import json, glob, re, os
V = os.path.dirname(os.path.dirname(os.path.abspath(__file__)))
rows = []
for d in sorted(glob.glob(V + '/seeded/C*-*')):
    m = d + '/meta.json'
    if not os.path.exists(m): continue
    meta = json.load(open(m))
    files = sorted(set(re.findall(r'^\+\+\+ b/modules/(\S+)', open(d + '/patch.diff').read(), re.M)))
    q, t = meta.get('check_quick'), meta.get('check_thorough')
    res = 'quick' if q == 'caught' else ('thorough only' if t == 'caught' else '**missed**')
    two = ' (two cooperating sites)' if glob.glob(d + '/site*.diff') else ''
    rows.append('| %s | %s%s | %s |' % (os.path.basename(d), ', '.join(files), two, res))
tab = '| seed | files changed | caught by (latest evaluation) |\n|---|---|---|\n' + '\n'.join(rows) + '\n'
p = V + '/DESIGN.md'; s = open(p).read()
b, e = '<!-- SEEDED-TABLE-BEGIN -->\n', '<!-- SEEDED-TABLE-END -->\n'
if b in s:
    s = s[:s.index(b) + len(b)] + tab + s[s.index(e):]
else:
    i = s.index('| seed | files changed |'); j = s.index('\nMisses and what was strengthened')
    s = s[:i] + b + tab + e + s[j:]
open(p, 'w').write(s); print(len(rows), 'seeds')
