#!/bin/bash
# Re-runs every kept seeded change (must be caught) and every harmless rewrite (must stay silent) against the
# current checks. Writes seeded/RESULTS.md. Usage: tools/selftest_all.sh [jobs]
J=${1:-4}
cd /verif
OUT=seeded/RESULTS.md; TMP=$(mktemp -d)
run_seed() { d=$1; id=$(basename $d | cut -d- -f1); n=$(basename $d | cut -d- -f2)
  WT=/tmp/selftest-$id-$n; git -C /repo worktree add --detach $WT HEAD >/dev/null 2>&1 || { echo "$id-$n | worktree-failed" > $2; return; }
  KEY=$(python3 -c "import hashlib,sys; print(hashlib.sha1(sys.argv[1].encode()).hexdigest()[:8])" $WT)
  if git -C $WT apply /verif/$d/patch.diff 2>/dev/null; then
    q=$(VERIF_REPO=$WT ./check $id --tier quick 2>&1 | grep -c "^VIOLATION")
    r="quick:$([ $q -gt 0 ] && echo caught || echo silent)"
    if [ $q -eq 0 ]; then t=$(VERIF_REPO=$WT ./check $id --tier thorough 2>&1 | grep -c "^VIOLATION"); r="$r thorough:$([ $t -gt 0 ] && echo caught || echo silent)"; fi
  else r="patch-no-longer-applies (the code it changed was repaired since)"; fi
  echo "$id-$n | $r" > $2
  git -C /repo worktree remove --force $WT >/dev/null 2>&1; rm -rf .cache/obj_scratch/$KEY .cache/*/harness_*_$KEY
}
export -f run_seed
ls -d seeded/C*-* | grep -E "${SELFTEST_FILTER:-.}" | xargs -P $J -I{} bash -c 'run_seed {} '$TMP'/$(basename {}).txt'
{ echo "# Self-test of the checks against the kept seeded changes ($(date -u +%FT%TZ), /repo $(git -C /repo rev-parse --short HEAD))"; echo; echo "| seed | result |"; echo "|---|---|"; cat $TMP/*.txt | sort | sed 's/^/| /; s/$/ |/'; } > $OUT
rm -rf $TMP; git checkout -- evidence 2>/dev/null; cat $OUT | tail -n +3 | grep -vc "quick:caught" | xargs echo "not caught by quick:"
