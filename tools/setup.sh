#!/bin/bash
# MANIFEST.setup_cmd: pre-builds the Lean library and the compiled drivers of every claimed property.
# One lake invocation for everything first (fast path); if that fails, each property is built on its own so that a
# broken proof obligation of one property cannot keep the others from being prepared. Always exits 0: every check
# rebuilds its own modules anyway and reports a broken obligation itself (VIOLATION ... no-failing-input-found).
cd "$(dirname "$0")/../lean" || exit 0
ALL="$*"
if lake build $ALL >/tmp/verif_setup.log 2>&1; then echo "setup: all targets built"; exit 0; fi
echo "setup: combined build failed, building per property"
python3 - "$@" <<'PY'
import re, subprocess, sys
groups = {}
for t in sys.argv[1:]:
    m = re.search(r'[cC](\d\d)', t)
    groups.setdefault(m.group(1) if m else 'zz', []).append(t)
for k in sorted(groups):
    r = subprocess.run(['lake', 'build'] + groups[k], capture_output=True, text=True)
    print('setup: C%s %s' % (k, 'ok' if r.returncode == 0 else 'FAILED (its check will report it)'))
PY
exit 0
