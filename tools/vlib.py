#!/usr/bin/env python3
"""Shared machinery of the cpp-tbox Lean-4 verification framework.

One check run = (1) regenerate generated Lean (tables) from the repo, (2) lake build of the
property's theorems + driver, (3) axiom audit + forbidden-token grep, (4) build the C++
harness from the repo's *working tree*, (5) generate cases, (6) run harness and Lean driver
on the same op files and diff, (7) on any break search for a failing input, shrink, consult
known_findings.txt, print VIOLATION / KNOWN-FINDING, (8) write evidence/<id>.json.
"""
import fcntl, hashlib, importlib.util, json, os, random, re, shutil, subprocess, sys, time

VERIF = os.path.dirname(os.path.dirname(os.path.abspath(__file__)))
REPO = os.environ.get('VERIF_REPO', '/repo')
LEAN = os.path.join(VERIF, 'lean')
CACHE = os.path.join(VERIF, '.cache')
NPROC = os.cpu_count() or 8

# sources of modules/base needed by almost everything (logging, assert, catch_throw)
BASE_SOURCES = ['modules/base/log_impl.cpp', 'modules/base/backtrace.cpp', 'modules/base/catch_throw.cpp',
                'modules/base/recorder.cpp', 'modules/base/log_output.cpp']

# the event module (reactor loop, both engines)
EVENT_SOURCES = ['modules/event/' + f for f in [
    'common_loop.cpp', 'common_loop_run.cpp', 'common_loop_signal.cpp', 'common_loop_timer.cpp',
    'engines/epoll/fd_event.cpp', 'engines/epoll/loop.cpp', 'engines/select/fd_event.cpp', 'engines/select/loop.cpp',
    'loop.cpp', 'misc.cpp', 'signal_event_impl.cpp', 'stat.cpp', 'timer_event_impl.cpp']]

ALLOWED_AXIOMS = {'propext', 'Classical.choice', 'Quot.sound'}
FORBIDDEN = re.compile(r'\bsorry\b|\badmit\b|^\s*axiom\s|\bnative_decide\b|\bbv_decide\b|implemented_by|\bunsafe\s|maxHeartbeats\s+0\b', re.M)

FLAVOURS = {
    'asan':  ['-O1', '-g', '-fsanitize=address,undefined', '-fno-sanitize-recover=all', '-fno-sanitize=nonnull-attribute', '-fno-omit-frame-pointer'],
    'tsan':  ['-O1', '-g', '-fsanitize=thread'],
    'plain': ['-O1', '-g'],
}
COMMON_DEFS = ['-std=c++14', '-DTBOX_VERIF=1', '-DHAVE_EPOLL=1', '-DTBOX_VERSION_MAJOR=1', '-DTBOX_VERSION_MINOR=0',
               '-DTBOX_VERSION_REVISION=0', '-DMODULE_ID="verif"', '-DLOG_MODULE_ID="verif"', '-w', '-pthread']


def log(*a):
    print(*a, file=sys.stderr, flush=True)


def sh(cmd, **kw):
    return subprocess.run(cmd, stdout=subprocess.PIPE, stderr=subprocess.STDOUT, text=True, **kw)


class Lock:
    def __init__(self, name):
        os.makedirs(CACHE, exist_ok=True)
        self.path = os.path.join(CACHE, name + '.lock')

    def __enter__(self):
        self.f = open(self.path, 'w')
        fcntl.flock(self.f, fcntl.LOCK_EX)
        return self

    def __exit__(self, *a):
        fcntl.flock(self.f, fcntl.LOCK_UN)
        self.f.close()


# --------------------------------------------------------------------------- Lean side

def lean_build(targets):
    """lake build of the given targets (modules / exe names). Returns (ok, log)."""
    # one lock per property (builds of different properties touch disjoint files and may overlap)
    m = re.search(r'C(\d\d)', ' '.join(targets), re.I)
    with Lock('lake_' + ('C' + m.group(1) if m else 'all')):
        r = sh(['lake', 'build'] + targets, cwd=LEAN)
    return r.returncode == 0, r.stdout


def strip_lean_comments(src):
    out = []
    i, n, depth = 0, len(src), 0
    while i < n:
        if src.startswith('/-', i):
            depth += 1; i += 2; continue
        if depth and src.startswith('-/', i):
            depth -= 1; i += 2; continue
        if depth:
            if src[i] == '\n': out.append('\n')
            i += 1; continue
        if src.startswith('--', i):
            j = src.find('\n', i)
            i = n if j < 0 else j
            continue
        out.append(src[i]); i += 1
    return ''.join(out)


def lean_module_closure(modules):
    """files of our own project reachable from the given modules through imports"""
    seen, todo = {}, list(modules)
    while todo:
        m = todo.pop()
        if m in seen or not (m.startswith('TboxModel') or m.startswith('Driver')):
            continue
        path = os.path.join(LEAN, m.replace('.', '/') + '.lean')
        if not os.path.exists(path):
            continue
        seen[m] = path
        for line in open(path, encoding='utf-8'):
            mm = re.match(r'\s*import\s+(\S+)', line)
            if mm: todo.append(mm.group(1))
    return seen


def lean_grep(modules):
    """forbidden tokens (comments stripped) in the import closure; returns list of hits"""
    hits = []
    for m, path in sorted(lean_module_closure(modules).items()):
        src = strip_lean_comments(open(path, encoding='utf-8').read())
        for mm in FORBIDDEN.finditer(src):
            line = src.count('\n', 0, mm.start()) + 1
            hits.append('%s:%d: %s' % (os.path.relpath(path, VERIF), line, mm.group(0).strip()))
    return hits


def lean_audit(pid, modules, theorems):
    """#print axioms on every property theorem. Returns dict thm -> (ok, detail)."""
    os.makedirs(os.path.join(CACHE, pid), exist_ok=True)
    f = os.path.join(CACHE, pid, 'Audit.lean')
    with open(f, 'w') as fh:
        for m in modules:
            fh.write('import %s\n' % m)
        for t in theorems:
            fh.write('#print axioms %s\n' % t)
    r = sh(['lake', 'env', 'lean', f], cwd=LEAN)
    text = r.stdout
    res = {}
    # outputs: "'X' depends on axioms: [a, b]"  or "'X' does not depend on any axioms"
    flat = re.sub(r'\s+', ' ', text)
    for t in theorems:
        m = re.search(r"'%s' depends on axioms: \[([^\]]*)\]" % re.escape(t), flat)
        if m:
            ax = {a.strip() for a in m.group(1).split(',') if a.strip()}
            bad = ax - ALLOWED_AXIOMS
            res[t] = (not bad, 'axioms: ' + ', '.join(sorted(ax)))
            continue
        if re.search(r"'%s' does not depend on any axioms" % re.escape(t), flat):
            res[t] = (True, 'no axioms')
            continue
        res[t] = (False, 'not found / not checked: ' + text[-400:])
    return res, text


def leanchecker(module):
    r = sh(['lake', 'env', 'leanchecker', module], cwd=LEAN)
    return r.returncode == 0, r.stdout[-2000:]


# --------------------------------------------------------------------------- C++ side

def _hash_files(paths):
    h = hashlib.sha256()
    for p in paths:
        try:
            with open(p, 'rb') as fh:
                h.update(p.encode()); h.update(fh.read())
        except OSError:
            h.update(b'missing:' + p.encode())
    return h.hexdigest()


def _parse_depfile(path):
    try:
        txt = open(path).read()
    except OSError:
        return None
    txt = txt.replace('\\\n', ' ')
    parts = txt.split(':', 1)
    if len(parts) < 2: return None
    return [p for p in parts[1].split() if p]


def compile_obj(src, flags, objdir):
    """compile src -> object, cached by content hash of all its dependencies + flags"""
    os.makedirs(objdir, exist_ok=True)
    key = hashlib.sha1((src + ' ' + ' '.join(flags)).encode()).hexdigest()[:16]
    base = os.path.join(objdir, os.path.basename(src).replace('.', '_') + '_' + key)
    obj, dep, stamp = base + '.o', base + '.d', base + '.stamp'
    with Lock('obj_' + key):
        deps = _parse_depfile(dep)
        if deps is not None and os.path.exists(obj) and os.path.exists(stamp):
            if open(stamp).read() == _hash_files(deps):
                return obj, None
        r = sh(['g++'] + flags + ['-MMD', '-MF', dep, '-c', src, '-o', obj])
        if r.returncode != 0:
            for p in (obj, stamp):
                if os.path.exists(p): os.remove(p)
            return None, r.stdout
        deps = _parse_depfile(dep) or [src]
        with open(stamp, 'w') as fh:
            fh.write(_hash_files(deps))
    return obj, None


def build_harness(pid, sources, harness_cpp, flavour='asan', extra_flags=(), libs=(), out_name='harness'):
    """Build the harness for property pid from the repo working tree. Returns (exe or None, log)."""
    from concurrent.futures import ThreadPoolExecutor
    inc = ['-I' + os.path.join(REPO, 'modules'), '-I' + os.path.join(REPO, '3rd-party'),
           '-I' + os.path.join(VERIF, 'harness')]
    flags = COMMON_DEFS + FLAVOURS[flavour] + inc + list(extra_flags)
    # objects of scratch trees (VERIF_REPO != /repo) live apart so they can be removed with the tree
    objdir = os.path.join(CACHE, 'obj', flavour) if REPO == '/repo' else \
        os.path.join(CACHE, 'obj_scratch', hashlib.sha1(REPO.encode()).hexdigest()[:8], flavour)
    srcs = [os.path.join(REPO, s) for s in sources] + [harness_cpp]
    with ThreadPoolExecutor(NPROC) as ex:
        res = list(ex.map(lambda s: compile_obj(s, flags, objdir), srcs))
    errs = [e for (_, e) in res if e]
    if errs:
        return None, '\n'.join(errs)
    outdir = os.path.join(CACHE, pid)
    os.makedirs(outdir, exist_ok=True)
    # keyed by repo root so that concurrent runs against different trees do not clobber each other
    rkey = '' if REPO == '/repo' else '_' + hashlib.sha1(REPO.encode()).hexdigest()[:8]
    exe = os.path.join(outdir, out_name + '_' + flavour + rkey)
    # link to a private name and rename: two checks of one property running at the same time no longer collide on the binary
    tmp_exe = '%s.tmp%d' % (exe, os.getpid())
    r = sh(['g++'] + FLAVOURS[flavour] + ['-pthread', '-o', tmp_exe] + [o for (o, _) in res] + list(libs))
    if r.returncode == 0:
        os.replace(tmp_exe, exe)
    if r.returncode != 0:
        return None, r.stdout
    return exe, ''


# --------------------------------------------------------------------------- cases

def case_text(idx, ops):
    return 'case %d\n' % idx + ''.join(o + '\n' for o in ops)


def split_cases(text):
    """output text -> {case_idx: [lines]} (lines after each 'case n' line)"""
    cases, cur = {}, None
    for line in text.splitlines():
        if line.startswith('case '):
            try:
                cur = int(line.split()[1])
            except (IndexError, ValueError):
                cur = None
            if cur is not None: cases[cur] = []
        elif cur is not None:
            cases[cur].append(line)
    return cases


OUTPUT_CAP = 256 * 1024 * 1024   # a runaway harness may not fill memory/disk: output file size limit


def run_proc(exe_argv, inp, timeout, env=None):
    """run a child with stdin from a temp file and stdout/stderr to size-capped temp files"""
    import resource, tempfile
    e = dict(os.environ)
    e.setdefault('ASAN_OPTIONS', 'detect_leaks=0:abort_on_error=0:exitcode=99:allocator_may_return_null=1')
    e.setdefault('UBSAN_OPTIONS', 'halt_on_error=1:exitcode=98:print_stacktrace=1')
    e.setdefault('TSAN_OPTIONS', 'exitcode=97:halt_on_error=1')
    if env: e.update(env)
    os.makedirs(os.path.join(CACHE, 'tmp'), exist_ok=True)
    with tempfile.TemporaryDirectory(dir=os.path.join(CACHE, 'tmp')) as td:
        fi, fo, fe = os.path.join(td, 'in'), os.path.join(td, 'out'), os.path.join(td, 'err')
        with open(fi, 'w') as fh:
            fh.write(inp)

        def limits():
            resource.setrlimit(resource.RLIMIT_FSIZE, (OUTPUT_CAP, OUTPUT_CAP))
            resource.setrlimit(resource.RLIMIT_CORE, (0, 0))
        rc = None
        with open(fi) as hi, open(fo, 'w') as ho, open(fe, 'w') as he:
            try:
                r = subprocess.run(exe_argv, stdin=hi, stdout=ho, stderr=he, timeout=timeout, env=e, preexec_fn=limits)
                rc = r.returncode
            except subprocess.TimeoutExpired:
                rc = 'timeout'
        so = open(fo, errors='replace').read()
        se = open(fe, errors='replace').read(4 * 1024 * 1024)
    return rc, so, se


def classify_crash(rc, stderr):
    if rc == 'timeout': return 'timeout'
    m = re.search(r'ERROR: AddressSanitizer: ([\w-]+)', stderr)
    if m: return 'asan:' + m.group(1)
    if 'runtime error:' in stderr:
        m = re.search(r'runtime error: ([^\n]{0,80})', stderr)
        return 'ubsan:' + (m.group(1) if m else '')
    if 'ThreadSanitizer' in stderr:
        m = re.search(r'WARNING: ThreadSanitizer: ([^\n(]{0,60})', stderr)
        return 'tsan:' + (m.group(1).strip() if m else '')
    m = re.search(r"terminate called after throwing an instance of '([^']+)'", stderr)
    if m: return 'exception:' + m.group(1)
    if isinstance(rc, int) and rc < 0: return 'crash:signal%d' % (-rc)
    return 'exit:%s' % rc


def run_harness_cases(exe, cases, timeout_per_batch=120, batch=400, env=None, argv=()):
    """Run harness over cases {idx: ops}. Crashes are isolated to their case and recorded as a
    final line 'CRASH <kind>' for that case. Returns {idx: [lines]}, stats."""
    out = {}
    idxs = sorted(cases)
    stats = {'crashes': 0, 'procs': 0}
    pos = 0
    while pos < len(idxs):
        chunk = idxs[pos:pos + batch]
        text = ''.join(case_text(i, cases[i]) for i in chunk)
        rc, so, se = run_proc([exe] + list(argv), text, timeout_per_batch, env)
        stats['procs'] += 1
        got = split_cases(so)
        if rc == 0 and all(i in got for i in chunk):
            out.update(got); pos += len(chunk); continue
        # crash / timeout / truncated: the last case that printed its header is the culprit
        done = [i for i in chunk if i in got]
        if not done:
            bad = chunk[0]
            out[bad] = ['CRASH ' + classify_crash(rc, se)]
            out[bad + 0] = out[bad]
            stats['crashes'] += 1
            stats.setdefault('crash_stderr', se[-3000:])
            pos += 1
            continue
        bad = done[-1]
        for i in done[:-1]:
            out[i] = got[i]
        kind = classify_crash(rc, se) if rc != 0 else 'truncated-output'
        out[bad] = got[bad] + ['CRASH ' + kind]
        stats['crashes'] += 1
        stats.setdefault('crash_stderr', se[-3000:])
        pos += len(done)
    return out, stats


def run_driver_cases(exe_name, cases, argv=(), timeout=600, extra_input=None):
    """Run the compiled Lean driver over cases. Returns {idx: [lines]}."""
    exe = os.path.join(LEAN, '.lake', 'build', 'bin', exe_name)
    idxs = sorted(cases)
    text = ''.join(case_text(i, cases[i]) for i in idxs)
    rc, so, se = run_proc([exe] + list(argv), text, timeout)
    if rc != 0:
        raise RuntimeError('Lean driver %s failed rc=%s: %s' % (exe_name, rc, se[-2000:]))
    return split_cases(so)


def first_diff(impl_lines, model_lines, ignore_prefixes=('B ',)):
    """Compare observable lines. Returns None or (k, impl_line, model_line, kind) where kind is
    'P' (property observable / crash) or 'M' (model-internal)."""
    a = [l for l in impl_lines if not l.startswith(ignore_prefixes)]
    b = [l for l in model_lines if not l.startswith(ignore_prefixes)]
    first_m = None
    for k in range(max(len(a), len(b))):
        x = a[k] if k < len(a) else '<missing>'
        y = b[k] if k < len(b) else '<missing>'
        if x != y:
            if x.startswith('M ') and y.startswith('M '):
                # model-internal difference: remember it, but a later property-level difference wins
                if first_m is None: first_m = (k, x, y, 'M')
                continue
            return (k, x, y, 'P')
    return first_m


def ddmin(ops, fails, max_tests=400):
    """delta debugging on a list of op lines; fails(list)->bool"""
    n, tests = 2, 0
    cur = list(ops)
    while len(cur) >= 2 and tests < max_tests:
        chunk = max(1, len(cur) // n)
        reduced = False
        for i in range(0, len(cur), chunk):
            cand = cur[:i] + cur[i + chunk:]
            tests += 1
            if cand and fails(cand):
                cur, n, reduced = cand, max(n - 1, 2), True
                break
            if tests >= max_tests: break
        if not reduced:
            if chunk == 1: break
            n = min(n * 2, len(cur))
    return cur


# --------------------------------------------------------------------------- findings / evidence

def load_findings(pid):
    """known_findings.txt: lines 'finding: property=<id> fp=<fingerprint> <text>' and 'fixed: ...'"""
    res = []
    p = os.path.join(VERIF, 'known_findings.txt')
    if not os.path.exists(p): return res
    for line in open(p):
        line = line.strip()
        m = re.match(r'finding:\s+property=(\S+)\s+fp=(\S+)\s+(.*)', line)
        if m and m.group(1) == pid:
            res.append((m.group(2), m.group(3)))
    return res


def write_replay(pid, name, text):
    d = os.path.join(VERIF, 'replays', pid)
    os.makedirs(d, exist_ok=True)
    p = os.path.join(d, name)
    with open(p, 'w') as fh:
        fh.write(text)
    return p


def write_evidence(pid, tier, seed, coverage, assumptions, wall, violations, level='proof'):
    d = os.path.join(VERIF, 'evidence')
    os.makedirs(d, exist_ok=True)
    ev = {'property_id': pid, 'tier': tier, 'seed': seed, 'level': level, 'coverage': coverage,
          'assumptions': assumptions, 'wall_s': round(wall, 2), 'violations': violations}
    tmp = os.path.join(d, pid + '.json.tmp')
    with open(tmp, 'w') as fh:
        json.dump(ev, fh, indent=1, sort_keys=True)
        fh.write('\n')
    os.replace(tmp, os.path.join(d, pid + '.json'))


def load_plugin(pid):
    path = os.path.join(VERIF, 'props', pid, 'plugin.py')
    spec = importlib.util.spec_from_file_location('plugin_' + pid, path)
    mod = importlib.util.module_from_spec(spec)
    sys.path.insert(0, os.path.join(VERIF, 'tools'))
    spec.loader.exec_module(mod)
    return mod


class Report:
    """collects violations / known findings for one run and prints the contract lines"""
    def __init__(self, pid):
        self.pid = pid
        self.findings = load_findings(pid)
        self.violations = []     # (replay_path, suffix)
        self.known = []          # text
        self.seen_fp = set()

    def violation(self, fingerprint, replay_path, what, no_input=False):
        for fp, text in self.findings:
            if fp == fingerprint:
                if fp not in self.seen_fp:
                    self.seen_fp.add(fp)
                    self.known.append(text)
                    print('KNOWN-FINDING: property=%s %s' % (self.pid, text), flush=True)
                return False
        key = (fingerprint,)
        if key in self.seen_fp: return True
        self.seen_fp.add(key)
        self.violations.append((replay_path, what))
        print('VIOLATION property=%s replay=%s%s' % (self.pid, replay_path, ' no-failing-input-found' if no_input else ''), flush=True)
        log('  -> ' + what)
        return True


# --------------------------------------------------------------------------- the standard check

def standard_check(P, tier, seed, replay=None):
    """P = plugin module. See props/C07/plugin.py for the interface."""
    t0 = time.time()
    pid = P.ID
    rep = Report(pid)
    rng = random.Random('%s:%d' % (pid, seed))
    cov = {'trusted_base': list(getattr(P, 'TRUSTED', [])) + [
        'Lean 4.33.0 kernel; axioms allowed: propext, Classical.choice, Quot.sound',
        'tools/vlib.py differ, props/%s/plugin.py generator, props/%s/harness.cpp, lean/Driver parsing' % (pid, pid)]}
    notes = []

    # (1) generated Lean from the source
    if hasattr(P, 'pre_lean'):
        try:
            P.pre_lean(REPO, LEAN)
        except Exception as ex:  # extractor cannot read the source any more
            p = write_replay(pid, 'extractor.txt', 'table extractor failed on the current source: %r\n' % (ex,))
            rep.violation('extractor', p, 'extractor failed: %r' % (ex,), no_input=True)

    # (2) build theorems + driver
    ok, blog = lean_build(list(P.LEAN_MODULES) + [P.EXE])
    proof_broken = None
    if not ok:
        proof_broken = blog[-3000:]
        notes.append('lake build failed')
        # the driver may still build even if a theorem over generated data does not
        ok2, _ = lean_build([P.EXE])
    # (3) audit
    audit, audit_txt = ({}, '')
    if ok:
        audit, audit_txt = lean_audit(pid, P.LEAN_MODULES, P.THEOREMS)
    grep_hits = lean_grep(list(P.LEAN_MODULES) + ['Driver.' + pid])
    obligations = len(P.THEOREMS)
    discharged = sum(1 for t in P.THEOREMS if audit.get(t, (False,))[0]) if not grep_hits else 0
    if tier == 'thorough' and ok:
        for m in P.LEAN_MODULES:
            okc, out = leanchecker(m)
            if not okc:
                proof_broken = (proof_broken or '') + '\nleanchecker failed on %s: %s' % (m, out)
                discharged = 0
    cov.update({'obligations': obligations, 'discharged': discharged,
                'checker_cmd': 'cd lean && lake build %s && lake env lean <#print axioms of each theorem>%s'
                               % (' '.join(P.LEAN_MODULES), ' && lake env leanchecker <module>' if tier == 'thorough' else ''),
                'theorems': {t: audit.get(t, (False, 'not built'))[1] for t in P.THEOREMS}})
    if grep_hits:
        proof_broken = (proof_broken or '') + '\nforbidden tokens: ' + '; '.join(grep_hits)
    for t in P.THEOREMS:
        if ok and not audit.get(t, (False,))[0]:
            proof_broken = (proof_broken or '') + '\naudit failed for %s: %s' % (t, audit.get(t, (False, '?'))[1])

    # (4) build the harness from the working tree
    flav = getattr(P, 'FLAVOUR', 'asan')
    exe, hlog = build_harness(pid, P.SOURCES, os.path.join(VERIF, 'props', pid, 'harness.cpp'), flav,
                              getattr(P, 'EXTRA_FLAGS', ()), getattr(P, 'LIBS', ()))
    if exe is None:
        # the repo no longer compiles with our harness: cannot decide anything
        p = write_replay(pid, 'harness_build.txt', hlog[-6000:])
        rep.violation('harness-build', p, 'harness does not build against the current tree', no_input=True)
        cov.update({'evaluations': 0, 'distinct_nontrivial': 0, 'rule': 'harness build failed', 'samples': []})
        write_evidence(pid, tier, seed, cov, list(getattr(P, 'ASSUMPTIONS', [])), time.time() - t0, len(rep.violations))
        return 1

    # (5) cases: corpus first, then generated
    cases = {}
    if replay:
        ops = [l.rstrip('\n') for l in open(replay) if l.strip() and not l.startswith('case ') and not l.startswith('#')]
        cases[0] = ops
    else:
        cdir = os.path.join(VERIF, 'corpus', pid)
        if os.path.isdir(cdir):
            for f in sorted(os.listdir(cdir)):
                if f.endswith('.ops'):
                    cases[len(cases)] = [l.rstrip('\n') for l in open(os.path.join(cdir, f))
                                         if l.strip() and not l.startswith('case ') and not l.startswith('#')]
        ncorpus = len(cases)
        for ops in P.gen(rng, tier):
            cases[len(cases)] = list(ops)
    # (6) run both sides
    env = getattr(P, 'HARNESS_ENV', None)
    impl, hstats = run_harness_cases(exe, cases, timeout_per_batch=getattr(P, 'BATCH_TIMEOUT', 180),
                                     batch=getattr(P, 'BATCH', 400), env=env)
    driver_ok = os.path.exists(os.path.join(LEAN, '.lake', 'build', 'bin', P.EXE))
    model = {}
    if driver_ok:
        if getattr(P, 'MODE', 'diff') == 'trace':
            # the driver validates the implementation's recorded trace: feed ops + impl lines
            tcases = {i: cases[i] + ['T ' + l for l in impl.get(i, [])] + ['end'] for i in cases}
            model = run_driver_cases(P.EXE, tcases)
        else:
            model = run_driver_cases(P.EXE, cases)

    # (7) compare
    def impl_of(ops):
        o, _ = run_harness_cases(exe, {0: ops}, timeout_per_batch=getattr(P, 'CASE_TIMEOUT', 60), env=env)
        return o.get(0, [])

    def model_of(ops, impl_lines=None):
        if getattr(P, 'MODE', 'diff') == 'trace':
            return run_driver_cases(P.EXE, {0: ops + ['T ' + l for l in impl_lines] + ['end']}).get(0, [])
        return run_driver_cases(P.EXE, {0: ops}).get(0, [])

    def differs(ops):
        il = impl_of(ops)
        ml = model_of(ops, il)
        return judge(il, ml)

    def judge(il, ml):
        if getattr(P, 'MODE', 'diff') == 'trace':
            # `reject M: …` = the acceptor could not follow the implementation on a model-internal choice
            # (broken correspondence); any other reject or a crash is a property-level violation
            bad = [l for l in ml if l.startswith('reject') and not l.startswith('reject M')] + \
                  [l for l in il if l.startswith('CRASH')]
            if bad: return ('P', bad[0], 'accept')
            badm = [l for l in ml if l.startswith('reject M')]
            return ('M', badm[0], 'accept') if badm else None
        d = first_diff(il, ml)
        return (d[3], d[1], d[2]) if d else None

    nontrivial_keys = set()
    dist = {}
    m_breaks, p_breaks = [], []
    for i in sorted(cases):
        il, ml = impl.get(i, ['<no output>']), model.get(i, ['<no model output>'])
        if driver_ok:
            d = judge(il, ml)
            if d:
                (p_breaks if d[0] == 'P' else m_breaks).append((i, d))
        else:
            if any(l.startswith('CRASH') for l in il):
                p_breaks.append((i, ('P', [l for l in il if l.startswith('CRASH')][0], 'no crash')))
        key = P.nontrivial(cases[i], ml) if hasattr(P, 'nontrivial') else default_nontrivial(cases[i], ml)
        if key is not None:
            nontrivial_keys.add(hashlib.sha1(('\n'.join(cases[i])).encode()).hexdigest())
        for l in ml:
            if l.startswith('B '):
                for tag in l[2:].split():
                    dist[tag] = dist.get(tag, 0) + 1

    reported = 0
    for (i, d) in p_breaks[:getattr(P, 'MAX_REPORT', 6)]:
        ops = cases[i]
        try:
            small = ddmin(ops, lambda c: (lambda r: r is not None and r[0] == 'P')(differs(c)),
                          max_tests=getattr(P, 'SHRINK_TESTS', 150))
        except Exception:
            small = ops
        il = impl_of(small); ml = model_of(small, il) if driver_ok else []
        dd = judge(il, ml) if driver_ok else d
        if dd is None or dd[0] != 'P':
            # schedule-dependent: the shrunk case did not reproduce on the final re-run; keep the original input
            small, dd = ops, d
        fp = P.fingerprint(small, dd) if hasattr(P, 'fingerprint') else default_fingerprint(small, dd)
        body = case_text(0, small) + '# seed=%d case=%d\n# implementation: %s\n# model/spec   : %s\n' % (
            seed, i, dd[1] if dd else d[1], dd[2] if dd else d[2])
        p = write_replay(pid, fp + '.ops', body)
        if rep.violation(fp, p, 'impl=%r expected=%r ops=%r' % ((dd or d)[1][:200], (dd or d)[2][:200], small[:12])):
            reported += 1
    # model-internal divergences are reported when no property-level VIOLATION was (P breaks that resolved to a recorded
    # KNOWN-FINDING do not count: they used to mask every M-only divergence of a package that has a finding)
    if m_breaks and not rep.violations:
        i, d = m_breaks[0]
        body = case_text(0, cases[i]) + '# correspondence broken on a model-internal observable (seed=%d case=%d)\n' \
               '# implementation: %s\n# model         : %s\n# %d of %d cases diverge; no property-level failing input found\n' % (
                   seed, i, d[1], d[2], len(m_breaks), len(cases))
        p = write_replay(pid, 'correspondence.ops', body)
        rep.violation('correspondence', p, 'model-internal divergence: impl=%r model=%r' % (d[1][:200], d[2][:200]), no_input=True)
    if proof_broken and not rep.violations:
        # a proof obligation no longer checks and no failing input was found
        body = 'property %s: proof obligations no longer check on the current tree\n%s\n' % (pid, proof_broken)
        p = write_replay(pid, 'proof_broken.txt', body)
        rep.violation('proof-broken', p, 'proof broken: ' + proof_broken[-600:], no_input=True)

    # (8) evidence
    samples = []
    for i in sorted(cases)[:1] + sorted(cases)[-2:]:
        samples.append({'ops': [o[:200] for o in cases[i][:40]], 'impl': [l[:300] for l in impl.get(i, [])[:6]], 'model': [l[:300] for l in model.get(i, [])[:6]]})
    cov.update({
        'evaluations': len(cases),
        'distinct_nontrivial': len(nontrivial_keys),
        'traces_validated_against_impl': len(cases) - len(p_breaks) - len(m_breaks),
        'rule': getattr(P, 'RULE', 'cases are op sequences from props/%s/plugin.py gen(); non-trivial = see plugin.nontrivial' % pid),
        'samples': samples,
        'distribution': dict(sorted(dist.items())),
        'harness': {'flavour': flav, 'processes': hstats['procs'], 'crashes': hstats['crashes']},
        'known_findings_hit': rep.known,
        'notes': notes,
    })
    if hasattr(P, 'extra_coverage'):
        cov.update(P.extra_coverage())
    write_evidence(pid, tier, seed, cov, list(getattr(P, 'ASSUMPTIONS', [])), time.time() - t0, len(rep.violations))
    log('[%s] tier=%s seed=%d cases=%d nontrivial=%d P-breaks=%d M-breaks=%d obligations=%d/%d wall=%.1fs' % (
        pid, tier, seed, len(cases), len(nontrivial_keys), len(p_breaks), len(m_breaks), discharged, obligations, time.time() - t0))
    return 1 if rep.violations else 0


def default_nontrivial(ops, model_lines):
    return 1 if len({l for l in model_lines if not l.startswith('B ')}) >= 2 else None


def default_fingerprint(ops, d):
    kinds = ' '.join(o.split()[0] for o in ops)
    return hashlib.sha1(kinds.encode()).hexdigest()[:12]
